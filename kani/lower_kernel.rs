// Appended to flussab-btor2/src/token.rs in the per-run scratch copy (never in /repo).
// Decides: the SWAR fast path and the cold path of the lowercase-keyword scanner both equal the byte-wise reference
// `lower_ref` (prelude/lower_ref.rs, proved against the spec by Verus): fast path for ALL 2^64 words (16 buffered
// bytes so that the fast path is taken), cold path for all inputs of 0..=8 bytes delivered by a one-shot source.
// Both go through the real DeferredReader; loops are unwound with unwinding assertions on.
#[cfg(kani)]
mod verif_kani_lower {
    use super::*;
    //@include lower_ref.rs

    #[kani::proof]
    #[kani::unwind(20)]
    fn lower_kernel_fast() {
        let bytes: [u8; 16] = kani::any();
        // one refill (no request loop): a slice source hands over all 16 bytes in one read
        let mut reader = DeferredReader::from_read(&bytes[..]);
        reader.set_chunk_size(16);
        reader.request_more();
        assert!(reader.buf_len() == 16);
        let got = ascii_lowercase_u64(&mut reader, 0);
        let mut b8 = [0u8; 8];
        b8.copy_from_slice(&bytes[..8]);
        let want = lower_ref(b8, 8);
        assert!(got.1 == want.1, "fast path: length differs from reference");
        assert!(got.0 == want.0, "fast path: word differs from reference");
    }

    #[kani::proof]
    #[kani::unwind(12)]
    fn lower_kernel_cold() {
        let bytes: [u8; 8] = kani::any();
        let len: usize = kani::any();
        kani::assume(len <= 8);
        let mut reader = DeferredReader::from_read(&bytes[..len]);
        reader.set_chunk_size(8);
        let got = ascii_lowercase_u64_cold(&mut reader, 0);
        let want = lower_ref(bytes, len);
        assert!(got.1 == want.1, "cold path: length differs from reference");
        assert!(got.0 == want.0, "cold path: word differs from reference");
    }
}
