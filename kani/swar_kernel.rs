// Appended to flussab/src/text.rs in the per-run scratch copy (never in /repo).
// Decides: for ALL 2^64 words the real SWAR kernel equals the byte-wise reference `swar_ref`
// (prelude/swar_ref.rs, the same text that Verus proves against dec/digits_len). Loop-free kernel, the
// reference loop is unwound 9 times with unwinding assertions: a complete proof, not a bounded one.
#[cfg(kani)]
mod verif_kani_swar {
    use super::*;
    //@include swar_ref.rs

    #[kani::proof]
    #[kani::unwind(9)]
    fn swar_kernel() {
        let word: u64 = kani::any();
        let got = swar_ascii_digits_u64_le(word);
        let want = swar_ref(word.to_le_bytes());
        assert!(got.1 == want.1, "kernel digit count differs from reference");
        assert!(got.0 == want.0, "kernel value differs from reference");
    }
}
