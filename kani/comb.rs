// Appended to flussab/src/parser.rs in the per-run scratch copy (never in /repo).
// C15: every combinator x every input case (symbolic payloads) x every closure outcome (symbolic), with call
// counters. Loop-free, full symbolic domain over u8 payloads: complete for these parametric functions.
#[cfg(kani)]
mod verif_kani_comb {
    use super::*;
    use std::cell::Cell;

    fn any_result() -> Result<u8, u8> {
        if kani::any() { Ok(kani::any()) } else { Err(kani::any()) }
    }
    fn any_parsed() -> Parsed<u8, u8> {
        if kani::any() { Res(any_result()) } else { Fallthrough }
    }
    #[derive(Clone, Copy, PartialEq, Eq, Debug)]
    struct W(u8);
    impl From<u8> for W {
        fn from(x: u8) -> W { W(x ^ 0x5a) }
    }

    #[kani::proof]
    fn or_give_up_table() {
        let x = any_parsed();
        let e: u8 = kani::any();
        let calls = Cell::new(0u32);
        let r = x.or_give_up(|| { calls.set(calls.get() + 1); e });
        match x {
            Res(res) => { assert!(calls.get() == 0, "or_give_up ran the error closure without a fallthrough"); assert!(r == res); }
            Fallthrough => { assert!(calls.get() == 1, "or_give_up did not run the error closure exactly once"); assert!(r == Err(e)); }
        }
    }

    #[kani::proof]
    fn optional_table() {
        let x = any_parsed();
        let r = x.optional();
        match x {
            Res(Ok(v)) => assert!(r == Ok(Some(v))),
            Res(Err(e)) => assert!(r == Err(e)),
            Fallthrough => assert!(r == Ok(None)),
        }
    }

    #[kani::proof]
    fn matches_table() {
        let x = any_parsed();
        let r = x.matches();
        match x {
            Res(Ok(_)) => assert!(r == Ok(true)),
            Res(Err(e)) => assert!(r == Err(e)),
            Fallthrough => assert!(r == Ok(false)),
        }
    }

    #[kani::proof]
    fn or_parse_table() {
        let x = any_parsed();
        let alt = any_parsed();
        let calls = Cell::new(0u32);
        let r = x.or_parse(|| { calls.set(calls.get() + 1); alt });
        match x {
            Fallthrough => { assert!(calls.get() == 1, "or_parse: alternative not run exactly once after a fallthrough"); assert!(r == alt); }
            _ => { assert!(calls.get() == 0, "or_parse: alternative run although the previous result was not a fallthrough"); assert!(r == x); }
        }
    }

    #[kani::proof]
    fn or_always_parse_table() {
        let x = any_parsed();
        let alt = any_result();
        let calls = Cell::new(0u32);
        let r = x.or_always_parse(|| { calls.set(calls.get() + 1); alt });
        match x {
            Fallthrough => { assert!(calls.get() == 1); assert!(r == alt); }
            Res(res) => { assert!(calls.get() == 0); assert!(r == res); }
        }
    }

    #[kani::proof]
    fn and_then_table() {
        let x = any_parsed();
        let cont = any_result();
        let calls = Cell::new(0u32);
        let seen = Cell::new(0u8);
        let r: Parsed<u8, u8> = x.and_then(|v| { calls.set(calls.get() + 1); seen.set(v); cont });
        match x {
            Res(Ok(v)) => { assert!(calls.get() == 1, "and_then: continuation not run exactly once after a success"); assert!(seen.get() == v); assert!(r == Res(cont), "and_then: failure of the continuation must be committed"); }
            Res(Err(e)) => { assert!(calls.get() == 0); assert!(r == Res(Err(e))); }
            Fallthrough => { assert!(calls.get() == 0); assert!(r == Fallthrough); }
        }
    }

    #[kani::proof]
    fn and_also_table() {
        let x = any_parsed();
        let nv: u8 = kani::any();
        let cont: Result<(), u8> = if kani::any() { Ok(()) } else { Err(kani::any()) };
        let calls = Cell::new(0u32);
        let seen = Cell::new(0u8);
        let r = x.and_also(|v| { calls.set(calls.get() + 1); seen.set(*v); *v = nv; cont });
        match x {
            Res(Ok(v)) => {
                assert!(calls.get() == 1, "and_also: continuation not run exactly once after a success");
                assert!(seen.get() == v);
                match cont { Ok(()) => assert!(r == Res(Ok(nv))), Err(e) => assert!(r == Res(Err(e)), "and_also: failure must be committed") }
            }
            other => { assert!(calls.get() == 0); assert!(r == other); }
        }
    }

    #[kani::proof]
    fn and_do_table() {
        let x = any_parsed();
        let nv: u8 = kani::any();
        let calls = Cell::new(0u32);
        let seen = Cell::new(0u8);
        let r = x.and_do(|v| { calls.set(calls.get() + 1); seen.set(*v); *v = nv; });
        match x {
            Res(Ok(v)) => { assert!(calls.get() == 1); assert!(seen.get() == v); assert!(r == Res(Ok(nv))); }
            other => { assert!(calls.get() == 0); assert!(r == other); }
        }
    }

    #[kani::proof]
    fn map_table() {
        let x = any_parsed();
        let out: u16 = kani::any();
        let calls = Cell::new(0u32);
        let seen = Cell::new(0u8);
        let r: Parsed<u16, u8> = x.map(|v| { calls.set(calls.get() + 1); seen.set(v); out });
        match x {
            Res(Ok(v)) => { assert!(calls.get() == 1); assert!(seen.get() == v); assert!(r == Res(Ok(out))); }
            Res(Err(e)) => { assert!(calls.get() == 0, "map touched the error case"); assert!(r == Res(Err(e))); }
            Fallthrough => { assert!(calls.get() == 0); assert!(r == Fallthrough); }
        }
    }

    #[kani::proof]
    fn map_err_table() {
        let x = any_parsed();
        let out: u16 = kani::any();
        let calls = Cell::new(0u32);
        let seen = Cell::new(0u8);
        let r: Parsed<u8, u16> = x.map_err(|e| { calls.set(calls.get() + 1); seen.set(e); out });
        match x {
            Res(Ok(v)) => { assert!(calls.get() == 0, "map_err touched the success case"); assert!(r == Res(Ok(v))); }
            Res(Err(e)) => { assert!(calls.get() == 1); assert!(seen.get() == e); assert!(r == Res(Err(out))); }
            Fallthrough => { assert!(calls.get() == 0); assert!(r == Fallthrough); }
        }
    }

    #[kani::proof]
    fn err_into_table() {
        let x = any_parsed();
        let r: Parsed<u8, W> = x.err_into();
        match x {
            Res(Ok(v)) => assert!(r == Res(Ok(v))),
            Res(Err(e)) => assert!(r == Res(Err(W::from(e)))),
            Fallthrough => assert!(r == Fallthrough),
        }
    }

    #[kani::proof]
    fn from_result_table() {
        let x = any_result();
        let r: Parsed<u8, u8> = Parsed::from(x);
        assert!(r == Res(x));
        let r2: Parsed<u8, u8> = x.into();
        assert!(r2 == Res(x));
    }

    #[kani::proof]
    fn result_err_into_table() {
        let x = any_result();
        let r: Result<u8, W> = ResultExt::err_into(x);
        match x {
            Ok(v) => assert!(r == Ok(v)),
            Err(e) => assert!(r == Err(W::from(e))),
        }
    }

    #[kani::proof]
    fn result_and_also_table() {
        let x = any_result();
        let nv: u8 = kani::any();
        let cont: Result<(), u8> = if kani::any() { Ok(()) } else { Err(kani::any()) };
        let calls = Cell::new(0u32);
        let seen = Cell::new(0u8);
        let r = ResultExt::and_also(x, |v| { calls.set(calls.get() + 1); seen.set(*v); *v = nv; cont });
        match x {
            Ok(v) => {
                assert!(calls.get() == 1);
                assert!(seen.get() == v);
                match cont { Ok(()) => assert!(r == Ok(nv)), Err(e) => assert!(r == Err(e)) }
            }
            Err(e) => { assert!(calls.get() == 0); assert!(r == Err(e)); }
        }
    }

    #[kani::proof]
    fn result_and_do_table() {
        let x = any_result();
        let nv: u8 = kani::any();
        let calls = Cell::new(0u32);
        let seen = Cell::new(0u8);
        let r = ResultExt::and_do(x, |v| { calls.set(calls.get() + 1); seen.set(*v); *v = nv; });
        match x {
            Ok(v) => { assert!(calls.get() == 1); assert!(seen.get() == v); assert!(r == Ok(nv)); }
            Err(e) => { assert!(calls.get() == 0); assert!(r == Err(e)); }
        }
    }

    // ---- the same table for a zero-sized payload and a zero-sized error: the combinators are generic, and nothing in their
    // contract depends on the size of T or E (a `size_of::<T>() == 0` shortcut would be invisible to the u8 table)
    fn any_parsed_unit() -> Parsed<(), ()> {
        match kani::any::<u8>() % 3 { 0 => Fallthrough, 1 => Res(Ok(())), _ => Res(Err(())) }
    }

    #[kani::proof]
    fn zst_table() {
        // and_do
        let x = any_parsed_unit();
        let calls = Cell::new(0u32);
        let r = x.and_do(|_v| { calls.set(calls.get() + 1); });
        assert!(calls.get() == if x == Res(Ok(())) { 1 } else { 0 }, "and_do: runs exactly once after a success, also for a zero-sized value");
        assert!(r == x);
        // and_also
        let cont: Result<(), ()> = if kani::any() { Ok(()) } else { Err(()) };
        let calls = Cell::new(0u32);
        let r = x.and_also(|_v| { calls.set(calls.get() + 1); cont });
        assert!(calls.get() == if x == Res(Ok(())) { 1 } else { 0 });
        assert!(r == if x == Res(Ok(())) { Res(cont) } else { x });
        // and_then
        let calls = Cell::new(0u32);
        let r: Parsed<(), ()> = x.and_then(|_v| { calls.set(calls.get() + 1); cont });
        assert!(calls.get() == if x == Res(Ok(())) { 1 } else { 0 });
        assert!(r == if x == Res(Ok(())) { Res(cont) } else { x });
        // map / map_err
        let calls = Cell::new(0u32);
        let r: Parsed<(), ()> = x.map(|_v| { calls.set(calls.get() + 1); });
        assert!(calls.get() == if x == Res(Ok(())) { 1 } else { 0 });
        assert!(r == x);
        let calls = Cell::new(0u32);
        let r: Parsed<(), ()> = x.map_err(|_e| { calls.set(calls.get() + 1); });
        assert!(calls.get() == if x == Res(Err(())) { 1 } else { 0 });
        assert!(r == x);
        // or_parse / or_always_parse / or_give_up / optional / matches
        let alt = any_parsed_unit();
        let calls = Cell::new(0u32);
        let r = x.or_parse(|| { calls.set(calls.get() + 1); alt });
        assert!(calls.get() == if x == Fallthrough { 1 } else { 0 });
        assert!(r == if x == Fallthrough { alt } else { x });
        let calls = Cell::new(0u32);
        let r = x.or_give_up(|| { calls.set(calls.get() + 1); });
        assert!(calls.get() == if x == Fallthrough { 1 } else { 0 });
        assert!(r == match x { Fallthrough => Err(()), Res(v) => v });
        assert!(x.optional() == match x { Fallthrough => Ok(None), Res(Ok(())) => Ok(Some(())), Res(Err(())) => Err(()) });
        assert!(x.matches() == match x { Fallthrough => Ok(false), Res(Ok(())) => Ok(true), Res(Err(())) => Err(()) });
        // ResultExt
        let y: Result<(), ()> = if kani::any() { Ok(()) } else { Err(()) };
        let calls = Cell::new(0u32);
        let r = ResultExt::and_do(y, |_v| { calls.set(calls.get() + 1); });
        assert!(calls.get() == if y.is_ok() { 1 } else { 0 });
        assert!(r == y);
        let calls = Cell::new(0u32);
        let r = ResultExt::and_also(y, |_v| { calls.set(calls.get() + 1); cont });
        assert!(calls.get() == if y.is_ok() { 1 } else { 0 });
        assert!(r == if y.is_ok() { cont } else { y });
    }
}
