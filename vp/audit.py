"""Syntactic audits over the whole repository (DESIGN 6/C01 (3), 6/C04 (c), 6/C05 call graph)."""
import json, os, subprocess, glob
from . import gen as G

ACCESSORS = ['.buf_len', '.buf', '.buf_ptr', '.request', '.is_complete', '.is_at_end', '.request_more', '.advance_unchecked']


def all_fns(repo=None):
    repo = repo or G.REPO
    files = []
    for crate in ('flussab', 'flussab-cnf', 'flussab-aiger', 'flussab-btor2'):
        for f in sorted(glob.glob(os.path.join(repo, crate, 'src', '**', '*.rs'), recursive=True)):
            files.append(os.path.relpath(f, repo))
    plan = {'repo': repo, 'rules': '', 'type_map': [], 'ghost_fields': {}, 'files': [{'path': p, 'items': []} for p in files]}
    os.makedirs(G.os.path.join(G.VERIF, 'gen'), exist_ok=True)
    pf = os.path.join(G.VERIF, 'gen', 'audit.plan.json')
    json.dump(plan, open(pf, 'w'))
    r = subprocess.run([G.WEAVE, pf], capture_output=True, text=True)
    out = json.loads(r.stdout)
    res = {}
    for fo in out['files']:
        for fn in fo.get('all_fns', []):
            if fn['path'].startswith('mod tests'):
                continue
            res[(fo['path'], fn['path'])] = fn
    return res


def verified_sources():
    """(file, fn name as in the source) of every function that some unit verifies with its body."""
    modules, units = G.load_all()
    out = set()
    for un, u in units.items():
        ug = G.UnitGen(u, modules, '', [], G.REPO)
        ug.select()
        for p, mode in ug.fn_modes.items():
            f = ug.fn_specs[p]
            if (mode == 'verify' or f.via) and f.module.file:
                name = f.name
                if 'lifted' in f.opts:
                    name = f.opts['lifted'].split()[0]
                out.add((f.module.file, name.replace(' ', '')))
    return out


def _n(path):
    import re
    p = path.replace(' ', '')
    p = re.sub(r"'\w+,?", '', p)
    p = p.replace('<>', '')
    return p


def run():
    fns = all_fns()
    ver = set((f, _n(n)) for (f, n) in verified_sources())
    def is_ver(file, path):
        return (file, _n(path)) in ver
    acc_total, acc_cov, unc = 0, 0, []
    syn_sites, unsafe_fns, unsafe_cov = [], 0, 0
    graph = {}
    for (file, path), fn in fns.items():
        uses = [c for c in fn['calls'] if c in ACCESSORS]
        if uses and not file.endswith('deferred_reader.rs'):
            acc_total += 1
            if is_ver(file, path):
                acc_cov += 1
            else:
                unc.append('%s::%s %s' % (file, path, ' '.join(uses)))
        if any(c.endswith('SyntaxError') for c in fn.get('constructs', [])):
            syn_sites.append('%s::%s' % (file, path))
        if fn['has_unsafe'] or fn['unsafe_fn']:
            unsafe_fns += 1
            if is_ver(file, path):
                unsafe_cov += 1
    return {
        'functions_in_repo': len(fns), 'functions_verified_with_body': sum(1 for k in fns if is_ver(*k)),
        'schedule_revealing_accessor_users': acc_total, 'of_which_under_contract': acc_cov, 'not_under_contract': unc,
        'SyntaxError_construction_sites': syn_sites,
        'functions_with_unsafe': unsafe_fns, 'of_which_under_contract_unsafe': unsafe_cov,
    }


if __name__ == '__main__':
    print(json.dumps(run(), indent=1))
