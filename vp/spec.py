"""Parser for contracts/*.vspec (see DESIGN.md 3.3).

Layout (indentation based):

    module <path> [<- <repo-relative file>]
    raw
        <text copied into the module>
    end
    struct|enum|const|type <Name>
      ghost <field>: <Type> = <init expr>
    fn <name>
      tags C05 C14                      default tags of built-in obligations of this function
      returns r                         name of the return value (default r)
      requires [C02] @label <expr>      one clause per keyword; continuation lines are indented deeper
      ensures  [C02 C08] <expr>
      decreases <expr>
      unwind [C14] <expr>               state asserted at every unwinding point (R8)
      dassert 0: <spec expr>            spec-level reading of the n-th debug_assert! (R8)
      paramtype msg: String             parameter type override (logged)
      generics <I: ScanInt>             generics override (logged)
      attr #[verifier::...]             attribute line put before the fn
      loop 0
        invariant [C13] <expr>
        invariant_except_break <expr>
        ensures <expr>
        decreases <expr>
      proof p1 before|after|start|end [/anchor/] [#n]
          <raw proof text>

units.vspec:

    unit <name>
      prelude a.rs b.rs
      verify <module path>::<fn name | *>
      stub   <module path>::<fn name | *>
"""
import re, os

FN_KEYS = {'alias', 'implraw', 'tags', 'returns', 'requires', 'ensures', 'decreases', 'unwind', 'dassert', 'paramtype', 'generics', 'where',
           'attr', 'loop', 'proof', 'rename', 'opt', 'recommends', 'site', 'lift', 'template', 'subst', 'selfname', 'paramrename', 'rettype', 'implgenerics', 'nounwind', 'via'}
LOOP_KEYS = {'invariant', 'invariant_except_break', 'ensures', 'decreases'}


class SpecError(Exception):
    pass


class Clause:
    def __init__(self, kind, tags, label, text, src):
        self.kind = kind      # requires / ensures / invariant / ...
        self.tags = tags
        self.label = label
        self.text = text      # list of lines
        self.src = src        # (file, line)
        self.id = None

    def joined(self):
        return '\n'.join(self.text)


class LoopSpec:
    def __init__(self, n):
        self.n = n
        self.clauses = []     # Clause list in order
        self.anchor = None    # text the loop head starts with (keeps the contract attached when loops before it come or go)


class ProofBlock:
    def __init__(self, pid, place, anchor, nth, src):
        self.id = pid
        self.place = place
        self.anchor = anchor
        self.nth = nth
        self.text = []
        self.src = src
        self.tags = []
        self.raw = False


class FnSpec:
    def __init__(self, module, name, src):
        self.module = module
        self.name = name
        self.src = src
        self.tags = []
        self.returns = 'r'
        self.clauses = []      # requires/ensures/decreases/recommends in order
        self.unwind = None
        self.dasserts = {}
        self.paramtypes = {}
        self.generics = None
        self.where = None
        self.attrs = []
        self.loops = {}
        self.proofs = []
        self.rename = None
        self.opts = {}
        self.sites = {}
        self.lifts = {}
        self.substs = []
        self.rettype = None
        self.implgenerics = None
        self.via = None
        self.renames = {}
        self.implraw = []
        self.aliases = []

    @property
    def path(self):
        return self.module.path + '::' + self.name

    def all_clauses(self):
        for c in self.clauses:
            yield c
        if self.unwind:
            yield self.unwind
        for k in sorted(self.dasserts):
            yield self.dasserts[k]
        for n in sorted(self.loops):
            for c in self.loops[n].clauses:
                yield c


class ItemSpec:
    def __init__(self, kind, name, src):
        self.kind = kind
        self.name = name
        self.src = src
        self.ghost = []   # (field, type, init)
        self.opts = {}
        self.rawlines = []


class ModuleSpec:
    def __init__(self, path, file):
        self.path = path
        self.file = file
        self.raw = []       # list of (text lines, src)
        self.items = []     # ItemSpec
        self.fns = []       # FnSpec (order of appearance)
        self.sitedefault = None
        self.hidedefault = []   # spec fns hidden at the start of every verified fn of the module (opt nohide to keep them visible)


def _indent(line):
    return len(line) - len(line.lstrip(' '))


def parse_tags_label(rest):
    tags, label = [], None
    rest = rest.strip()
    m = re.match(r'\[([^\]]*)\]\s*', rest)
    if m:
        tags = m.group(1).split()
        rest = rest[m.end():]
    m = re.match(r'@([A-Za-z0-9_\.]+)\s*', rest)
    if m:
        label = m.group(1)
        rest = rest[m.end():]
    return tags, label, rest


def parse_vspec(path, modules):
    """Parses one contract file, adding to the dict modules (path -> ModuleSpec)."""
    lines = open(path).read().split('\n')
    i = 0
    cur_mod = None
    cur_fn = None
    cur_item = None
    n = len(lines)

    def err(msg, ln):
        raise SpecError('%s:%d: %s' % (path, ln + 1, msg))

    def collect_cont(start, base_indent):
        """Collects continuation lines (indent > base_indent, or blank lines followed by such)."""
        out = []
        j = start
        while j < n:
            l = lines[j]
            if l.strip() == '':
                # blank: keep only if a deeper line follows
                k = j
                while k < n and lines[k].strip() == '':
                    k += 1
                if k < n and _indent(lines[k]) > base_indent and not lines[k].lstrip().startswith('#!'):
                    out.append('')
                    j += 1
                    continue
                break
            if _indent(l) > base_indent:
                out.append(l)
                j += 1
            else:
                break
        return out, j

    while i < n:
        line = lines[i]
        s = line.strip()
        if s == '' or (s.startswith('#') and not s.startswith('#[')):
            i += 1
            continue
        ind = _indent(line)
        if ind == 0:
            cur_fn = None
            cur_item = None
            w = s.split(None, 1)
            key = w[0]
            rest = w[1] if len(w) > 1 else ''
            if key == 'module':
                m = re.match(r'(\S+)(?:\s*<-\s*(\S+))?$', rest)
                if not m:
                    err('bad module line', i)
                mp, f = m.group(1), m.group(2)
                if mp in modules:
                    cur_mod = modules[mp]
                    if f and cur_mod.file and f != cur_mod.file:
                        err('module %s declared with two files' % mp, i)
                    if f:
                        cur_mod.file = f
                else:
                    cur_mod = ModuleSpec(mp, f)
                    modules[mp] = cur_mod
                i += 1
            elif key == 'raw':
                if cur_mod is None:
                    err('raw outside module', i)
                j = i + 1
                buf = []
                while j < n and lines[j].rstrip() != 'end':
                    buf.append(lines[j])
                    j += 1
                if j >= n:
                    err('raw without end', i)
                cur_mod.raw.append((buf, (path, i + 2), rest.strip()))
                i = j + 1
            elif key == 'hidedefault':
                if cur_mod is None:
                    err('hidedefault outside module', i)
                cur_mod.hidedefault += rest.split()
                i += 1
            elif key == 'sitedefault':
                if cur_mod is None:
                    err('sitedefault outside module', i)
                cur_mod.sitedefault = rest.strip()
                i += 1
            elif key == 'rawinclude':
                if cur_mod is None:
                    err('rawinclude outside module', i)
                ip = os.path.join(os.path.dirname(path), rest.strip())
                cur_mod.raw.append((open(ip).read().split('\n'), (ip, 1), ''))
                i += 1
            elif key in ('struct', 'enum', 'const', 'type', 'trait'):
                if cur_mod is None:
                    err('item outside module', i)
                cur_item = ItemSpec(key, rest.strip(), (path, i + 1))
                cur_mod.items.append(cur_item)
                i += 1
            elif key == 'fn':
                if cur_mod is None:
                    err('fn outside module', i)
                cur_fn = FnSpec(cur_mod, rest.strip(), (path, i + 1))
                cur_mod.fns.append(cur_fn)
                i += 1
            else:
                err('unknown top-level keyword %r' % key, i)
            continue
        # indented
        if cur_item is not None and cur_fn is None:
            w = s.split(None, 1)
            if w[0] == 'ghost':
                m = re.match(r'(\w+)\s*:\s*(.+?)\s*=\s*(.+)$', w[1])
                if not m:
                    err('bad ghost line', i)
                cur_item.ghost.append((m.group(1), m.group(2), m.group(3)))
            elif w[0] == 'opt':
                k, v = (w[1].split(None, 1) + [''])[:2]
                cur_item.opts[k] = v
            elif w[0] == 'raw':
                cur_item.rawlines.append(w[1] if len(w) > 1 else '')
            else:
                err('unknown item clause %r' % w[0], i)
            i += 1
            continue
        if cur_fn is None:
            err('indented line outside fn/item', i)
        w = s.split(None, 1)
        key = w[0]
        rest = w[1] if len(w) > 1 else ''
        if ind <= 3:
            if key not in FN_KEYS:
                err('unknown fn clause %r' % key, i)
            if key == 'tags':
                cur_fn.tags = rest.split()
                i += 1
            elif key == 'returns':
                cur_fn.returns = rest.strip()
                i += 1
            elif key in ('requires', 'ensures', 'decreases', 'recommends', 'unwind'):
                tags, label, text = parse_tags_label(rest)
                cont, j = collect_cont(i + 1, ind)
                c = Clause(key, tags, label, [text] + [x.strip() for x in cont], (path, i + 1))
                if key == 'unwind':
                    cur_fn.unwind = c
                else:
                    cur_fn.clauses.append(c)
                i = j
            elif key == 'dassert':
                m = re.match(r'(\d+)\s*:\s*(.*)$', rest)
                if not m:
                    err('bad dassert', i)
                tags, label, text = parse_tags_label(m.group(2))
                cont, j = collect_cont(i + 1, ind)
                cur_fn.dasserts[int(m.group(1))] = Clause('dassert', tags, label, [text] + [x.strip() for x in cont], (path, i + 1))
                i = j
            elif key == 'paramtype':
                k, v = rest.split(':', 1)
                cur_fn.paramtypes[k.strip()] = v.strip()
                i += 1
            elif key == 'generics':
                cur_fn.generics = rest.strip()
                i += 1
            elif key == 'implgenerics':
                cur_fn.implgenerics = rest.strip()
                i += 1
            elif key == 'where':
                cur_fn.where = rest.strip()
                i += 1
            elif key == 'rettype':
                cur_fn.rettype = rest.strip()
                i += 1
            elif key == 'attr':
                cur_fn.attrs.append(rest.strip())
                i += 1
            elif key == 'alias':
                cur_fn.aliases += rest.split()
                i += 1
            elif key == 'implraw':
                cur_fn.implraw.append(rest)
                i += 1
            elif key == 'paramrename':
                k, v = rest.split('=>')
                cur_fn.renames[k.strip()] = v.strip()
                i += 1
            elif key == 'rename':
                cur_fn.rename = rest.strip()
                i += 1
            elif key == 'via':
                cur_fn.via = rest.strip()
                i += 1
            elif key == 'opt':
                k, v = (rest.split(None, 1) + [''])[:2]
                cur_fn.opts[k] = v
                i += 1
            elif key == 'site':
                m = re.match(r'(\w+)\s*:?\s*(\w+)$', rest)
                if not m:
                    err('bad site', i)
                cur_fn.sites[m.group(1)] = m.group(2)
                i += 1
            elif key == 'lift':
                # lift <closure ordinal> <fn name> (<params>) -> <ret>
                m = re.match(r'(\d+)\s+([\w:<>, ]+?)\s*\((.*)\)\s*(?:->\s*(.*))?$', rest)
                if not m:
                    err('bad lift', i)
                cur_fn.lifts[int(m.group(1))] = {'name': m.group(2), 'params': m.group(3), 'ret': m.group(4)}
                i += 1
            elif key == 'subst':
                m = re.match(r'/(.*)/\s*=>\s*/(.*)/\s*(?:--\s*(.*))?$', rest)
                if not m:
                    err('bad subst', i)
                cur_fn.substs.append((m.group(1), m.group(2), m.group(3) or ''))
                i += 1
            elif key == 'loop':
                ml = re.match(r'(\d+)\s*(?:/(.*)/)?\s*$', rest.strip())
                if not ml:
                    err('bad loop header (loop N [/text of the loop head/])', i)
                ln = int(ml.group(1))
                lp = LoopSpec(ln)
                lp.anchor = ml.group(2)
                lp.src = (path, i + 1)
                cur_fn.loops[ln] = lp
                j = i + 1
                while j < n:
                    l2 = lines[j]
                    s2 = l2.strip()
                    if s2 == '' or s2.startswith('# '):
                        j += 1
                        continue
                    if _indent(l2) <= ind:
                        break
                    w2 = s2.split(None, 1)
                    if w2[0] not in LOOP_KEYS:
                        err('unknown loop clause %r' % w2[0], j)
                    tags, label, text = parse_tags_label(w2[1] if len(w2) > 1 else '')
                    cont, j2 = collect_cont(j + 1, _indent(l2))
                    lp.clauses.append(Clause(w2[0], tags, label, [text] + [x.strip() for x in cont], (path, j + 1)))
                    j = j2
                i = j
            elif key == 'proof':
                m = re.match(r'(?:\[([^\]]*)\]\s*)?(\w+)\s+(before|after_unit|after|start|end|ret|scrut|loopstart|loopend)\s*(?:/(.*)/)?\s*(?:#(\d+))?\s*(raw)?$', rest)
                if not m:
                    err('bad proof header', i)
                pb = ProofBlock(m.group(2), m.group(3), m.group(4) or '', int(m.group(5) or 0), (path, i + 1))
                pb.tags = (m.group(1) or '').split()
                pb.raw = bool(m.group(6))
                cont, j = collect_cont(i + 1, ind)
                pb.text = cont
                cur_fn.proofs.append(pb)
                i = j
            else:
                err('unhandled key %s' % key, i)
        else:
            err('unexpected deep indentation', i)
    return modules


class UnitSpec:
    def __init__(self, name):
        self.name = name
        self.prelude = []
        self.entries = []   # (mode, module path, fn name or '*')
        self.expect_fail = []
        self.includes = []
        self.opts = {}


def parse_units(path):
    units = {}
    cur = None
    for ln, line in enumerate(open(path).read().split('\n')):
        s = line.strip()
        if not s or s.startswith('#'):
            continue
        w = s.split()
        if _indent(line) == 0:
            if w[0] != 'unit':
                raise SpecError('%s:%d: expected unit' % (path, ln + 1))
            cur = UnitSpec(w[1])
            units[w[1]] = cur
        else:
            if w[0] == 'prelude':
                cur.prelude += w[1:]
            elif w[0] in ('verify', 'stub'):
                for p in w[1:]:
                    mod, fn = p.rsplit('::', 1) if not p.endswith('>') else (None, None)
                    # fn names can contain '::' (Type::f) so module is resolved later against known modules
                    cur.entries.append((w[0], p))
            elif w[0] == 'opt':
                cur.opts[w[1]] = ' '.join(w[2:])
            elif w[0] == 'include':
                cur.includes += w[1:]
            else:
                raise SpecError('%s:%d: unknown unit clause %s' % (path, ln + 1, w[0]))
    return units
