"""Kani overlays: scratch copy of /repo + appended harness modules; results cached by content."""
import os, re, json, time, shutil, subprocess, tempfile, hashlib

VERIF = os.path.dirname(os.path.dirname(os.path.abspath(__file__)))
REPO = os.environ.get('VP_REPO', '/repo')
CACHE = os.path.join(VERIF, '.cache')

HARNESSES = {
    # name: crate, file the module is appended to, overlay text, harness fn names
    'swar_kernel': {'crate': 'flussab', 'file': 'flussab/src/text.rs', 'overlay': 'kani/swar_kernel.rs', 'harnesses': ['swar_kernel'],
                    'fn': 'flussab::text::swar_ascii_digits_u64_le', 'complete': True,
                    'what': 'real SWAR kernel == byte-wise reference for all 2^64 words (loop-free; reference unwound 9 with unwinding assertions)'},
    'lower_kernel': {'crate': 'flussab-btor2', 'file': 'flussab-btor2/src/token.rs', 'overlay': 'kani/lower_kernel.rs', 'harnesses': ['lower_kernel_fast'],
                     'fn': 'flussab_btor2::token::ascii_lowercase_u64', 'complete': True,
                     'what': 'btor2 keyword scanner, SWAR fast path only: for all 2^64 words (16 bytes buffered by one refill of the real DeferredReader) length and masked word equal the byte-wise reference; the cold path harness (lower_kernel_cold) does not finish and is not registered'},
    'comb': {'crate': 'flussab', 'file': 'flussab/src/parser.rs', 'overlay': 'kani/comb.rs', 'complete': True,
             'harnesses': ['or_give_up_table', 'optional_table', 'matches_table', 'or_parse_table', 'or_always_parse_table', 'and_then_table',
                           'and_also_table', 'and_do_table', 'map_table', 'map_err_table', 'err_into_table', 'from_result_table',
                           'result_err_into_table', 'result_and_also_table', 'result_and_do_table', 'zst_table'],
             'what': 'every combinator x every input case x every closure outcome with call counters (symbolic u8 payloads, loop-free: complete)'},
}


def overlay_text(path):
    out = []
    for l in open(os.path.join(VERIF, path)).read().split('\n'):
        m = re.match(r'\s*//@include (\S+)', l)
        if m:
            for l2 in open(os.path.join(VERIF, 'prelude', m.group(1))).read().split('\n'):
                # plain-Rust view: `//@ ` lines stay comments, `//@-` markers are harmless comments
                out.append('    ' + l2)
            continue
        out.append(l)
    return '\n'.join(out) + '\n'


def kani_version():
    try:
        return subprocess.run(['cargo', 'kani', '--version'], capture_output=True, text=True).stdout.strip()
    except Exception as e:
        return 'kani: %s' % e


def run_harness_group(name, timeout=1500, repo=None):
    """Runs all harnesses of one overlay. Returns a dict (status ok|failed|undecided, per-harness results)."""
    repo = repo or REPO
    h = HARNESSES[name]
    src_path = os.path.join(repo, h['file'])
    try:
        src = open(src_path).read()
    except Exception as e:
        return {'name': name, 'status': 'undecided', 'reason': 'cannot read %s: %s' % (src_path, e), 'harnesses': []}
    ov = overlay_text(h['overlay'])
    # every source file of the crate influences the result
    crate_dir = os.path.join(repo, h['crate'])
    hh = hashlib.sha256()
    for root, dirs, files in sorted(os.walk(os.path.join(crate_dir, 'src'))):
        for f in sorted(files):
            hh.update(open(os.path.join(root, f), 'rb').read())
    hh.update(ov.encode())
    hh.update(','.join(h['harnesses']).encode())
    hh.update(kani_version().encode())
    key = 'kani-' + name + '-' + hh.hexdigest()[:24]
    os.makedirs(CACHE, exist_ok=True)
    cpath = os.path.join(CACHE, key + '.json')
    if os.path.exists(cpath):
        r = json.load(open(cpath))
        r['cache'] = 'hit'
        return r
    t0 = time.time()
    tmp = tempfile.mkdtemp(prefix='vp-kani-')
    res = {'name': name, 'status': 'ok', 'reason': '', 'harnesses': [], 'complete': h.get('complete', False), 'what': h['what'], 'fn': h.get('fn')}
    try:
        # scratch copy of the workspace sources (no target dir, no .git)
        subprocess.run('cd %s && tar cf - --exclude=target --exclude=.git . | (cd %s && tar xf -)' % (repo, tmp), shell=True, check=True)
        with open(os.path.join(tmp, h['file']), 'a') as f:
            f.write('\n' + ov)
        os.makedirs(os.path.join(tmp, '.cargo'), exist_ok=True)
        with open(os.path.join(tmp, '.cargo', 'config.toml'), 'w') as f:
            f.write('[net]\noffline = true\n')
        env = dict(os.environ, CARGO_NET_OFFLINE='true', CARGO_TARGET_DIR=os.path.join(tmp, 'target'))
        cmd = ['cargo', 'kani', '-p', h['crate'], '-Z', 'concrete-playback', '--concrete-playback=print'] + h.get('args', [])
        for hn in h['harnesses']:
            cmd += ['--harness', hn]
        cmds = [' '.join(cmd)]
        t1 = time.time()
        out = ''
        try:
            p = subprocess.run(cmd, cwd=tmp, env=env, capture_output=True, text=True, timeout=timeout)
            out = p.stdout + '\n' + p.stderr
        except subprocess.TimeoutExpired as e:
            res['status'] = 'undecided'
            res['reason'] = 'kani timeout'
            out = (e.stdout or b'').decode('utf8', 'replace') if isinstance(e.stdout, bytes) else (e.stdout or '')
        segs = re.split(r'Checking harness ', out)
        seen = {}
        for seg in segs[1:]:
            hn_full = seg.split('...')[0].strip()
            hn = hn_full.split('::')[-1]
            hr = {'harness': hn}
            m = re.search(r'VERIFICATION:- (SUCCESSFUL|FAILED)', seg)
            checks = re.search(r'\*\* (\d+) of (\d+) failed', seg)
            tm = re.search(r'Verification Time: ([0-9.]+)s', seg)
            if tm:
                hr['wall_s'] = float(tm.group(1))
            if checks:
                hr['checks_failed'] = int(checks.group(1))
                hr['checks_total'] = int(checks.group(2))
            if m and m.group(1) == 'SUCCESSFUL':
                hr['result'] = 'successful'
            elif m:
                hr['result'] = 'failed'
                failed = re.findall(r'Failed Checks: (.*)', seg)
                hr['failed_checks'] = failed[:10]
                pb = re.search(r'Concrete playback unit test for `[^`]*`:\s*```\s*(.*?)```', seg, re.S)
                if pb:
                    hr['playback'] = pb.group(1)[:4000]
                    hr['concrete_bytes'] = re.findall(r'vec!\[([0-9, ]*)\]', pb.group(1))
                if failed and all('unwinding assertion' in f for f in failed):
                    hr['result'] = 'undecided'
                    res['reason'] = 'unwinding assertion failed in %s: bound too small for the changed code' % hn
                    if res['status'] == 'ok':
                        res['status'] = 'undecided'
                else:
                    res['status'] = 'failed'
            else:
                hr['result'] = 'error'
                if res['status'] == 'ok':
                    res['status'] = 'undecided'
                    res['reason'] = 'kani produced no verdict for %s' % hn
            seen[hn] = hr
            res['harnesses'].append(hr)
        missing = [hn for hn in h['harnesses'] if hn not in seen]
        if missing and res['status'] != 'failed':
            res['status'] = 'undecided'
            res['reason'] = 'kani produced no verdict for %s (compile error or unsupported construct): %s' % (missing[:3], out[-1500:])
        res['cmd'] = ' ; '.join(cmds)
    finally:
        shutil.rmtree(tmp, ignore_errors=True)
    res['wall_s'] = round(time.time() - t0, 1)
    res['cache'] = 'miss'
    json.dump(res, open(cpath, 'w'))
    return res


if __name__ == '__main__':
    import sys
    print(json.dumps(run_harness_group(sys.argv[1]), indent=1))
