"""Runs Verus on a generated unit and turns its diagnostics into an obligation table."""
import json, os, re, subprocess, time, hashlib, sys
from . import gen as G
from . import spec as S

VERIF = G.VERIF
GEN_DIR = os.environ.get('VP_GEN') or os.path.join(VERIF, 'gen')
CACHE_DIR = os.path.join(VERIF, '.cache')
VERUS = os.environ.get('VP_VERUS', 'verus')
MULTI_ERR = 40


class UnitResult:
    def __init__(self, name):
        self.name = name
        self.status = 'ok'          # ok | failed | undecided
        self.reason = ''
        self.failures = []          # dicts: {fn, clause, kind, message, gen_line, src, tags, rendered}
        self.fn_stats = {}          # fn path -> {success, time_ms, rlimit}
        self.verified_fns = []
        self.stub_fns = []
        self.clauses = {}           # id -> {fn, tags, kind, text}
        self.rewrites = []
        self.trusted = []
        self.times = {}
        self.wall_s = 0.0
        self.canary = None
        self.gen_path = None
        self.n_lines = 0
        self.audit = {}

    def to_json(self):
        return self.__dict__


def sha(*parts):
    h = hashlib.sha256()
    for p in parts:
        if isinstance(p, str):
            p = p.encode()
        h.update(p)
        h.update(b'\0')
    return h.hexdigest()


def tool_versions():
    try:
        v = subprocess.run([VERUS, '--version'], capture_output=True, text=True).stdout
    except Exception as e:
        v = 'verus: ' + str(e)
    return v


_TOOLV = None


def run_verus(path, extra=()):
    cmd = [VERUS, path, '--output-json', '--time', '--error-format=json', '--multiple-errors', str(MULTI_ERR),
           '--num-threads', '16'] + list(extra)
    t0 = time.time()
    r = subprocess.run(cmd, capture_output=True, text=True, cwd=os.path.dirname(path))
    dt = time.time() - t0
    out = None
    try:
        out = json.loads(r.stdout)
    except Exception:
        out = None
    diags = []
    for l in r.stderr.split('\n'):
        l = l.strip()
        if l.startswith('{'):
            try:
                diags.append(json.loads(l))
            except Exception:
                pass
    return r.returncode, out, diags, r.stderr, dt, ' '.join(cmd)


def scan_trusted(ug):
    """Mechanical scan for assumptions in the generated file."""
    found = []
    pat = re.compile(r'\b(assume\s*\(|admit\s*\(|external_body|assume_specification|verifier::external|uninterp\s+spec|axiom)')
    lines = ug.lines
    for i, l in enumerate(lines):
        if l.text.strip().startswith('//'):
            continue
        m = pat.search(l.text)
        if m:
            # describe by the next fn/struct name
            desc = l.text.strip()
            for k in range(i, min(i + 4, len(lines))):
                mm = re.search(r'\b(fn|struct)\s+(\w+)', lines[k].text)
                if mm:
                    desc = '%s %s' % (m.group(1).strip('( '), mm.group(2))
                    break
                mm = re.search(r'assume_specification.*\[\s*([^\]]+)\]', lines[k].text)
                if mm:
                    desc = 'assume_specification %s' % mm.group(1).strip()
                    break
            where = l.kind if l.kind != 'fnhead' else 'stub'
            found.append({'what': desc, 'where': where, 'fn': l.fn, 'src': l.src})
    return found


def classify(diags, ug, canary=False):
    """Maps Verus diagnostics to failures with clause ids and tags."""
    failures = []
    hard_errors = []
    for d in diags:
        if d.get('level') != 'error':
            continue
        msg = d.get('message', '')
        if msg.startswith('aborting due to'):
            continue
        spans = d.get('spans', [])
        prim = [s for s in spans if s.get('is_primary')]
        sec = [s for s in spans if not s.get('is_primary')]
        info = {'message': msg, 'rendered': d.get('rendered', '')[:3000]}
        def line_of(s):
            n = s['line_start']
            if 1 <= n <= len(ug.lines):
                return ug.lines[n - 1], n
            return None, n
        kind = None
        for k, pat in (('postcondition', 'postcondition not satisfied'), ('precondition', 'precondition not satisfied'),
                       ('invariant_end', 'invariant not satisfied at end of loop body'), ('invariant_front', 'invariant not satisfied before loop'), ('invariant_break', 'loop invariant not satisfied'),
                       ('assertion', 'assertion failed'), ('overflow', 'possible arithmetic underflow/overflow'),
                       ('decreases', 'decreases not satisfied'), ('loop_ensures', 'loop ensures not satisfied'), ('rlimit', 'Resource limit'), ('closure_requires', 'callee.requires(args)'),
                       ('index', 'index'), ('termination', 'termination'), ('div0', 'possible division by zero'), ('bitshift', 'shift')):
            if pat in msg:
                kind = k
                break
        if kind is None:
            # not a verification failure: compile / mode / unsupported error
            hard_errors.append(info)
            continue
        info['kind'] = kind
        # the contract clause involved (if any)
        clause = None
        fn = None
        site = None
        for s in spans:
            l, n = line_of(s)
            if l is None:
                continue
            if l.kind == 'clause' and l.clause and clause is None and (s.get('label') or '').startswith(('failed', 'at this')) :
                clause = l.clause
        for s in spans:
            l, n = line_of(s)
            if l is None:
                continue
            if l.kind == 'clause' and clause is None and l.clause:
                clause = l.clause
        # the function whose body is being checked = function of the primary span in body, or of the return site
        for s in prim + sec:
            l, n = line_of(s)
            if l is not None and l.kind in ('body', 'proof', 'canary', 'loophead', 'fnhead') and l.fn:
                fn = l.fn
                site = (l.src, n)
                break
        if fn is None:
            for s in prim + sec:
                l, n = line_of(s)
                if l is not None and l.fn:
                    fn = l.fn
                    site = (l.src, n)
                    break
        if kind == 'precondition':
            # clause belongs to the callee; the failing function is the caller (primary span)
            for s in prim:
                l, n = line_of(s)
                if l is not None and l.fn:
                    fn = l.fn
                    site = (l.src, n)
        if kind in ('assertion',):
            for s in prim:
                l, n = line_of(s)
                if l is not None:
                    if l.kind == 'canary':
                        info['canary'] = True
                    if l.clause:
                        clause = l.clause
                    fn = l.fn or fn
                    site = (l.src, n)
        if kind in ('invariant_end', 'invariant_front', 'invariant_break', 'postcondition', 'loop_ensures', 'decreases'):
            for s in prim:
                l, n = line_of(s)
                if l is not None and l.kind == 'clause':
                    clause = l.clause
        info['fn'] = fn
        info['clause'] = clause
        info['site'] = site
        tags = []
        if clause and clause in ug.clauses:
            tags = list(ug.clauses[clause].eff_tags)
            info['clause_text'] = ' '.join(ug.clauses[clause].text)
            info['clause_fn'] = ug.clauses[clause].fn
        elif clause and '#proof.' in clause:
            f = ug.fn_specs.get(fn)
            pid = clause.split('#proof.')[1]
            if f:
                for p in f.proofs:
                    if p.id == pid and p.tags:
                        tags = list(p.tags)
                if not tags:
                    # a proof step supports every contract clause of its function
                    for c in f.all_clauses():
                        for t in c.tags:
                            if t not in tags:
                                tags.append(t)
        f = ug.fn_specs.get(fn) if fn else None
        if kind in ('overflow', 'index', 'div0', 'bitshift', 'termination', 'decreases', 'rlimit') or not tags:
            if f:
                for t in f.tags:
                    if t not in tags:
                        tags.append(t)
        if kind == 'precondition' and f:
            # a violated callee precondition is also a built-in obligation of the caller
            for t in f.tags:
                if t not in tags:
                    tags.append(t)
        if kind != 'postcondition' and f:
            # anything that fails inside a body (invariant, assertion, callee precondition, arithmetic) leaves every
            # postcondition of that function unproved: Verus assumes the failed fact from there on
            for t in f.tags:
                if t not in tags:
                    tags.append(t)
            for c in f.all_clauses():
                if c.kind == 'ensures':
                    for t in c.tags:
                        if t not in tags:
                            tags.append(t)
        info['tags'] = tags
        failures.append(info)
    return failures, hard_errors


def verify_unit(unit_name, repo=None, use_cache=True, keep=True, canary=True):
    """Generates and verifies one unit. Returns UnitResult."""
    global _TOOLV
    modules, units = G.load_all()
    if unit_name not in units:
        raise S.SpecError('no such unit ' + unit_name)
    res = UnitResult(unit_name)
    t0 = time.time()
    os.makedirs(GEN_DIR, exist_ok=True)
    ug = G.UnitGen(units[unit_name], modules, G.load_rules(), G.load_type_map(), repo or G.REPO)
    try:
        ug.select()
        ug.run_weave(GEN_DIR)
        ug.generate(canary=False)
    except (G.GenError, S.SpecError) as e:
        res.status = 'undecided'
        res.reason = str(e)
        res.wall_s = time.time() - t0
        return res
    text = ug.text()
    path = os.path.join(GEN_DIR, unit_name + '.rs')
    open(path, 'w').write(text)
    res.gen_path = path
    res.n_lines = len(ug.lines)
    res.verified_fns = list(ug.verified_fns)
    res.stub_fns = list(ug.stub_fns)
    res.rewrites = [list(r) for r in ug.rewrites]
    res.clauses = {cid: {'fn': c.fn, 'tags': c.eff_tags, 'kind': c.kind, 'text': ' '.join(c.text), 'src': [os.path.relpath(c.src[0], VERIF), c.src[1]]} for cid, c in ug.clauses.items()}
    res.trusted = scan_trusted(ug)
    res.audit = ug.audit
    res.fn_tags = {p: f.tags for p, f in ug.fn_specs.items()}
    res.fn_src = {}
    for (mp, kind, name), io in ug.weave_out.items():
        if kind == 'fn':
            res.fn_src[mp + '::' + name] = [io['_file'], io.get('src_line', 0)]
    # source map for replay files
    smap = [[l.kind, l.fn, l.clause, list(l.src) if l.src else None] for l in ug.lines]
    json.dump(smap, open(os.path.join(GEN_DIR, unit_name + '.map.json'), 'w'))

    if _TOOLV is None:
        _TOOLV = tool_versions()
    key = sha(text, _TOOLV, str(MULTI_ERR), open(os.path.join(VERIF, 'vp', 'gen.py')).read(), open(__file__).read())   # the canary text and the classification depend on the generator/driver
    os.makedirs(CACHE_DIR, exist_ok=True)
    cpath = os.path.join(CACHE_DIR, key + '.json')
    cached = None
    if use_cache and os.path.exists(cpath):
        try:
            cached = json.load(open(cpath))
        except Exception:
            cached = None
    if cached is None:
        rc, out, diags, stderr, dt, cmd = run_verus(path)
        cached = {'rc': rc, 'out': out, 'diags': diags, 'stderr_tail': stderr[-4000:] if (out is None or 'panicked' in stderr) else '', 'dt': dt, 'cmd': cmd}
        # A resource-limit failure decides nothing. Before answering UNDECIDED, run once more with four times the per-function
        # limits (same text otherwise, same line numbers): a postcondition that became false is then usually reported as such.
        if out is not None and any(f['kind'] == 'rlimit' for f in classify(diags, ug)[0]):
            bpath = os.path.join(GEN_DIR, unit_name + '_boost.rs')
            open(bpath, 'w').write(re.sub(r'#\[verifier::rlimit\((\d+)\)\]', lambda m: '#[verifier::rlimit(%d)]' % (4 * int(m.group(1))), text))
            rc_b, out_b, diags_b, stderr_b, dt_b, cmd_b = run_verus(bpath, extra=('--rlimit', '40'))
            if out_b is not None:
                diags_b = json.loads(json.dumps(diags_b).replace(unit_name + '_boost.rs', unit_name + '.rs'))
                cached.update({'rc': rc_b, 'out': out_b, 'diags': diags_b, 'dt': dt + dt_b, 'cmd': cmd + ' ; retried with 4x rlimit: ' + cmd_b, 'boosted': True})
                out, diags = out_b, diags_b
        # canary run
        if canary and out is not None:
            ug.generate(canary=True)
            cpath2 = os.path.join(GEN_DIR, unit_name + '_canary.rs')
            open(cpath2, 'w').write(ug.text())
            rc2, out2, diags2, stderr2, dt2, cmd2 = run_verus(cpath2)
            f2, hard2 = classify(diags2, ug, canary=True)
            hit = sorted(set(f['fn'] for f in f2 if f.get('canary')))
            cached['canary'] = {'expected': sorted(ug.verified_fns_with_body), 'failed_as_expected': hit, 'dt': dt2,
                                'hard_errors': [h['message'] for h in hard2][:5]}
            ug.generate(canary=False)
        json.dump(cached, open(cpath, 'w'))
        res.cache = 'miss'
    else:
        res.cache = 'hit'
    # the cache is keyed by the generated text: a hit may have been produced under another generation directory; report the current one
    res.checker_cmd = re.sub(r'verus \S*/([A-Za-z0-9_]+\.rs)', lambda m: 'verus ' + os.path.join(GEN_DIR, m.group(1)), cached['cmd'])
    out, diags = cached['out'], cached['diags']
    res.solver_s = cached['dt']
    if out is None:
        res.status = 'undecided'
        res.reason = 'verus produced no JSON result: ' + cached.get('stderr_tail', '')[-1500:]
        res.wall_s = time.time() - t0
        return res
    vr = out.get('verification-results', {})
    res.times = {'total_ms': out.get('times-ms', {}).get('total'), 'smt_run_ms': out.get('times-ms', {}).get('smt', {}).get('smt-run')}
    for mt in out.get('times-ms', {}).get('smt', {}).get('smt-run-module-times', []):
        for fb in mt.get('function-breakdown', []):
            res.fn_stats[fb['function']] = {'success': fb['success'], 'time_ms': fb['time'], 'rlimit': fb['rlimit'], 'mode': fb.get('mode:')}
    failures, hard = classify(diags, ug)
    res.failures = failures
    res.verus_verified = vr.get('verified')
    res.verus_errors = vr.get('errors')
    infra = [f for f in failures if not f.get('fn')]
    if infra and not hard:
        res.status = 'undecided'
        res.reason = 'proof-infrastructure failure (lemma or prelude item does not verify): ' + ' | '.join((f['message'] + ' ' + str(f.get('site'))) for f in infra[:3])
        res.infra_failures = infra
    elif hard or vr.get('encountered-vir-error'):
        res.status = 'undecided'
        res.reason = 'unsupported-construct or compile error: ' + ' | '.join(h['message'] for h in hard[:3])
        res.hard_errors = hard[:10]
    elif failures and all(f['kind'] == 'rlimit' for f in failures):
        res.status = 'undecided'
        res.reason = 'rlimit'
    elif failures:
        res.status = 'failed'
    elif not vr.get('success'):
        res.status = 'undecided'
        res.reason = 'verus reported failure without a classified diagnostic (tool crash?): ' + (cached.get('stderr_tail') or '')[-600:]
    else:
        res.status = 'ok'
    res.canary = cached.get('canary')
    if res.status == 'ok' and res.canary is not None:
        exp, hit = res.canary['expected'], res.canary['failed_as_expected']
        if exp != hit:
            res.status = 'undecided'
            if res.canary.get('hard_errors'):
                res.reason = 'vacuity guard could not run: the canary copy does not compile: %s' % '; '.join(res.canary['hard_errors'])[:600]
            else:
                res.reason = 'vacuity guard: canary assertion verified in %s' % sorted(set(exp) - set(hit))
    res.wall_s = time.time() - t0
    return res
