"""Non-Verus engines (Kani overlays, bounded native stand-ins), replay, per-property texts."""
import json, os, subprocess, time

VERIF = os.path.dirname(os.path.dirname(os.path.abspath(__file__)))

LEVELS = {}          # property -> level category (default proof)
EXPLANATIONS = {}
ASSUMPTIONS_COMMON = [
    'Verus 0.2026.09.13 + Z3, rustc front end, and the weaver (syn) are trusted; rewrites applied are listed under coverage.rewrites_applied',
    'usize is 64 bit (global size_of usize == 8); streams shorter than 2^60 bytes, buffers up to 2^56 bytes, chunk sizes up to 2^28',
    'std::io::Read protocol as stated in prelude/base.rs (read_into): fixed content, finitely many consecutive Interrupted results',
]


def level_of(prop):
    return LEVELS.get(prop, 'proof')


def explanation_of(prop):
    return EXPLANATIONS.get(prop, 'contracts woven into mechanically extracted real function bodies, discharged by Verus; see DESIGN.md section 6/' + prop)


def assumptions_of(prop, trusted):
    return ASSUMPTIONS_COMMON + ['every external_body / assume_specification / uninterp item listed in coverage.trusted_base']


def run_engines(prop, tier, seed):
    return []


def replay(path):
    doc = json.load(open(path))
    print('replay of', path)
    print('obligation:', json.dumps(doc.get('obligation'), indent=1))
    sc = doc.get('scenario')
    if not sc:
        print('no concrete scenario recorded (the deciding verifier gives no counterexample); verifier output follows')
        print(doc.get('verifier_output'))
        print('NOT-REPRODUCED (no-failing-input-found)')
        return 0
    print('scenario replay not yet built for kind', sc.get('kind'))
    return 0
