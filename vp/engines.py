"""Non-Verus engines (Kani overlays, bounded native stand-ins), replay, per-property texts."""
import json, os, re, subprocess, time, tempfile, shutil
from . import kani as K

VERIF = os.path.dirname(os.path.dirname(os.path.abspath(__file__)))
REPO = os.environ.get('VP_REPO', '/repo')

# property -> Kani harness groups that are part of its deciding step
KANI_FOR = {
    'C13': ['swar_kernel'],
    'C01': ['swar_kernel'],
    'C14': ['swar_kernel'],
    'C15': ['comb'],
}

# property -> bounded native stand-in (never counted as proved): the BTOR2 line parser / writer, which the weaver cannot extract
STANDIN_FOR = {'C01': 'btor2', 'C03': 'btor2', 'C04': 'btor2', 'C05': 'btor2', 'C08': 'btor2', 'C09': 'btor2'}

LEVELS = {}          # property -> level category (default proof)
EXPLANATIONS = {}
ASSUMPTIONS_COMMON = [
    'Verus 0.2026.09.13 + Z3, rustc front end, and the weaver (syn) are trusted; rewrites applied are listed under coverage.rewrites_applied',
    'usize is 64 bit (global size_of usize == 8); streams shorter than 2^60 bytes, buffers up to 2^56 bytes, chunk sizes up to 2^28',
    'std::io::Read protocol as stated in prelude/base.rs (read_into): fixed content, finitely many consecutive Interrupted results',
]


def level_of(prop):
    return LEVELS.get(prop, 'proof')


def explanation_of(prop):
    return EXPLANATIONS.get(prop, 'contracts woven into mechanically extracted real function bodies, discharged by Verus (and Kani where listed); see DESIGN.md section 6/' + prop)


def assumptions_of(prop, trusted):
    a = list(ASSUMPTIONS_COMMON)
    a.append('every external_body / assume_specification / uninterp item listed in coverage.trusted_base')
    if prop in KANI_FOR:
        a.append('Kani 0.68 / CBMC 6.11: harnesses listed under coverage.back_ends.kani; parametricity for the finite combinator table (C15)')
    return a


def build_standin():
    """Builds /verif/standin against REPO (path dependencies are generated per run); returns (binary path | None, message)."""
    gen = os.environ.get('VP_GEN') or os.path.join(VERIF, 'gen')
    d = os.path.join(gen, 'standin')
    os.makedirs(os.path.join(d, 'src'), exist_ok=True)
    open(os.path.join(d, 'Cargo.toml'), 'w').write(open(os.path.join(VERIF, 'standin', 'Cargo.toml.in')).read().replace('@REPO@', REPO))
    shutil.copy(os.path.join(VERIF, 'standin', 'src', 'main.rs'), os.path.join(d, 'src', 'main.rs'))
    if os.path.exists(os.path.join(REPO, 'Cargo.lock')):
        shutil.copy(os.path.join(REPO, 'Cargo.lock'), os.path.join(d, 'Cargo.lock'))
    tgt = os.path.join(VERIF, 'standin', 'target') if REPO == '/repo' else os.path.join(d, 'target')
    env = dict(os.environ, CARGO_NET_OFFLINE='true', CARGO_TARGET_DIR=tgt)
    p = subprocess.run(['cargo', 'build', '--release', '--offline', '-q'], cwd=d, env=env, capture_output=True, text=True, timeout=1800)
    exe = os.path.join(tgt, 'release', 'vp-standin')
    if p.returncode != 0 or not os.path.exists(exe):
        return None, (p.stderr or p.stdout)[-1500:]
    return exe, ''


def run_standin(prop, tier, seed):
    t0 = time.time()
    name = 'standin:' + STANDIN_FOR[prop]
    er = {'name': name, 'kind': 'bounded', 'status': 'ok', 'reason': '', 'failures': [], 'failures_n': 0, 'cases': 0, 'distinct_nontrivial': 0, 'bound': '', 'samples': []}
    exe, msg = build_standin()
    if exe is None:
        er.update(status='undecided', reason='the bounded stand-in does not build against this tree (public API changed?): ' + msg, wall_s=time.time() - t0)
        return er
    p = subprocess.run([exe, prop, tier, str(seed)], capture_output=True, text=True, timeout=3600)
    try:
        d = json.loads(p.stdout)
    except Exception:
        er.update(status='undecided', reason='the bounded stand-in produced no result: ' + (p.stderr or '')[-600:], wall_s=time.time() - t0)
        return er
    er.update(cases=d['parser_runs'], distinct_nontrivial=d['distinct_nontrivial'], bound=d['bound'], failures_n=len(d['failures']), wall_s=round(time.time() - t0, 2),
              samples=[{'note': 'BOUNDED, not a proof: real flussab-btor2 parser/writer run natively on %d distinct inputs' % d['distinct_inputs']}])
    seen = set()
    for f in d['failures']:
        if f['check'] in seen:
            continue            # one violation per violated check; the replay file carries the first failing input
        seen.add(f['check'])
        er['status'] = 'failed'
        er['failures'].append({
            'engine': 'standin', 'kind': 'bounded_standin', 'fn': 'flussab_btor2::parser::Parser::next_line / btor2::Line::write_into',
            'clause': 'standin:btor2::%s' % re.sub(r'[^A-Za-z0-9]+', '_', f['check']).strip('_'), 'tags': [prop],
            'message': 'bounded stand-in: %s fails on input %r (chunk %s, read size %s, fault at %s): %s' % (f['check'], f['input'], f['chunk'], f['step'], f['fail_at'], f['detail'][:600]),
            'rendered': json.dumps(f, indent=1)[:3000], 'clause_text': f['check'], 'site': (('flussab-btor2/src/parser.rs', 0), 0),
            'counterexample': {'input': f['input'], 'input_hex': f['input_hex'], 'chunk': f['chunk'], 'step': f['step'], 'fail_at': f['fail_at']},
            'scenario': {'kind': 'standin', 'input_hex': f['input_hex'], 'chunk': f['chunk'], 'step': f['step'], 'fail_at': f['fail_at'], 'check': f['check']},
        })
    return er


def replay_standin(sc):
    exe, msg = build_standin()
    if exe is None:
        print('NOT-REPRODUCED (stand-in does not build: %s)' % msg[-300:])
        return 0
    args = [exe, '--replay', sc['input_hex'], str(sc['chunk']), str(sc['step']), str(sc['fail_at']) if sc.get('fail_at') is not None else '-', (sc.get('check') or 'all')[:3]]
    p = subprocess.run(args, capture_output=True, text=True, timeout=600)
    print(p.stdout[-3000:])
    print('check that failed:', sc.get('check'))
    print('REPRODUCED: the real parser fails the check on the recorded input' if p.returncode == 1 else 'NOT-REPRODUCED')
    return 1 if p.returncode == 1 else 0


def run_engines(prop, tier, seed):
    out = []
    if prop in STANDIN_FOR:
        out.append(run_standin(prop, tier, seed))
    for g in KANI_FOR.get(prop, []):
        r = K.run_harness_group(g)
        er = {'name': 'kani:' + g, 'kind': 'kani', 'status': r['status'], 'reason': r.get('reason', ''), 'wall_s': r.get('wall_s', 0.0),
              'harnesses': r['harnesses'], 'complete': r.get('complete'), 'cmd': r.get('cmd'), 'cache': r.get('cache'),
              'obligations': len(K.HARNESSES[g]['harnesses']),
              'discharged': sum(1 for h in r['harnesses'] if h.get('result') == 'successful'),
              'trusted': ['Kani/CBMC back end for ' + g],
              'samples': [{'obligation': 'kani:%s::%s' % (g, h['harness']), 'kind': 'kani harness', 'text': K.HARNESSES[g]['what'], 'checks': h.get('checks_total')} for h in r['harnesses'][:2]],
              'failures': []}
        for h in r['harnesses']:
            if h.get('result') == 'failed':
                er['failures'].append({
                    'engine': 'kani', 'kind': 'kani_harness', 'fn': K.HARNESSES[g].get('fn') or 'flussab::parser (combinator table)',
                    'clause': 'kani:%s::%s' % (g, h['harness']), 'tags': [prop],
                    'message': 'Kani harness %s FAILED: %s' % (h['harness'], '; '.join(h.get('failed_checks', [])[:4])),
                    'rendered': (h.get('playback') or '')[:3000],
                    'clause_text': K.HARNESSES[g]['what'],
                    'site': ((K.HARNESSES[g]['file'], 0), 0),
                    'counterexample': {'concrete_values': h.get('concrete_bytes')},
                    'scenario': {'kind': 'kani_playback', 'group': g, 'harness': h['harness'], 'values': h.get('concrete_bytes')},
                })
        out.append(er)
    return out


# ------------------------------------------------------------------------------------------ replay

SHIM = '''
    #[allow(dead_code)]
    mod kani {
        use std::cell::RefCell;
        thread_local! { static Q: RefCell<Option<Vec<Vec<u8>>>> = RefCell::new(None); }
        fn load() -> Vec<Vec<u8>> {
            let s = std::env::var("VP_REPLAY_VALUES").unwrap_or_default();
            s.split(';').filter(|x| !x.is_empty()).map(|v| v.split(',').filter(|b| !b.trim().is_empty()).map(|b| b.trim().parse::<u8>().expect("VP-REPLAY-INFRA-ERROR bad value")).collect()).collect()
        }
        pub fn any<T: Copy>() -> T {
            Q.with(|q| {
                let mut q = q.borrow_mut();
                if q.is_none() { let mut v = load(); v.reverse(); *q = Some(v); }
                let bytes = q.as_mut().unwrap().pop().expect("VP-REPLAY-INFRA-ERROR ran out of concrete values");
                assert_eq!(bytes.len(), std::mem::size_of::<T>(), "VP-REPLAY-INFRA-ERROR size mismatch");
                unsafe { std::ptr::read_unaligned(bytes.as_ptr() as *const T) }
            })
        }
    }
'''


def replay_kani(sc):
    g = sc['group']
    h = K.HARNESSES[g]
    ov = K.overlay_text(h['overlay'])
    modname = re.search(r'mod (verif_kani_\w+)', ov).group(1)
    ov = ov.replace('#[cfg(kani)]', '#[cfg(test)]')
    ov = re.sub(r'#\[kani::unwind\(\d+\)\]\s*', '', ov)
    ov = ov.replace('#[kani::proof]', '#[test]')
    ov = re.sub(r'(mod %s \{)' % modname, r'\1' + SHIM, ov, count=1)
    tmp = tempfile.mkdtemp(prefix='vp-replay-')
    try:
        subprocess.run('cd %s && tar cf - --exclude=target --exclude=.git . | (cd %s && tar xf -)' % (REPO, tmp), shell=True, check=True)
        with open(os.path.join(tmp, h['file']), 'a') as f:
            f.write('\n' + ov)
        vals = ';'.join(v for v in (sc.get('values') or []))
        env = dict(os.environ, CARGO_NET_OFFLINE='true', CARGO_TARGET_DIR=os.path.join(tmp, 'target'), VP_REPLAY_VALUES=vals)
        p = subprocess.run(['cargo', 'test', '--offline', '-p', h['crate'], '--lib', '%s::%s' % (modname, sc['harness']), '--', '--nocapture'],
                           cwd=tmp, env=env, capture_output=True, text=True, timeout=900)
        out = p.stdout + p.stderr
        print(out[-2500:])
        if 'VP-REPLAY-INFRA-ERROR' in out:
            print('NOT-REPRODUCED (replay infrastructure error)')
            return 0
        if re.search(r'test result: FAILED', out) or 'panicked at' in out:
            print('REPRODUCED: the concrete values of the verifier make the real code fail the harness assertion')
            return 1
        if re.search(r'test result: ok. 1 passed', out):
            print('NOT-REPRODUCED')
            return 0
        print('NOT-REPRODUCED (replay build problem)')
        return 0
    finally:
        shutil.rmtree(tmp, ignore_errors=True)


def replay(path):
    doc = json.load(open(path))
    print('replay of', path)
    print('obligation:', json.dumps(doc.get('obligation'), indent=1))
    sc = doc.get('scenario')
    if not sc:
        print('no concrete scenario recorded (the deciding verifier gives no counterexample); verifier output follows')
        print(doc.get('verifier_output'))
        print('NOT-REPRODUCED (no-failing-input-found)')
        return 0
    if sc.get('kind') == 'kani_playback':
        return replay_kani(sc)
    if sc.get('kind') == 'standin':
        return replay_standin(sc)
    print('unknown scenario kind', sc.get('kind'))
    return 0
