"""Non-Verus engines (Kani overlays, bounded native stand-ins), replay, per-property texts."""
import json, os, re, subprocess, time, tempfile, shutil
from . import kani as K

VERIF = os.path.dirname(os.path.dirname(os.path.abspath(__file__)))
REPO = os.environ.get('VP_REPO', '/repo')

# property -> Kani harness groups that are part of its deciding step
KANI_FOR = {
    'C13': ['swar_kernel'],
    'C01': ['swar_kernel'],
    'C14': ['swar_kernel'],
    'C15': ['comb'],
}

LEVELS = {}          # property -> level category (default proof)
EXPLANATIONS = {}
ASSUMPTIONS_COMMON = [
    'Verus 0.2026.09.13 + Z3, rustc front end, and the weaver (syn) are trusted; rewrites applied are listed under coverage.rewrites_applied',
    'usize is 64 bit (global size_of usize == 8); streams shorter than 2^60 bytes, buffers up to 2^56 bytes, chunk sizes up to 2^28',
    'std::io::Read protocol as stated in prelude/base.rs (read_into): fixed content, finitely many consecutive Interrupted results',
]


def level_of(prop):
    return LEVELS.get(prop, 'proof')


def explanation_of(prop):
    return EXPLANATIONS.get(prop, 'contracts woven into mechanically extracted real function bodies, discharged by Verus (and Kani where listed); see DESIGN.md section 6/' + prop)


def assumptions_of(prop, trusted):
    a = list(ASSUMPTIONS_COMMON)
    a.append('every external_body / assume_specification / uninterp item listed in coverage.trusted_base')
    if prop in KANI_FOR:
        a.append('Kani 0.68 / CBMC 6.11: harnesses listed under coverage.back_ends.kani; parametricity for the finite combinator table (C15)')
    return a


def run_engines(prop, tier, seed):
    out = []
    for g in KANI_FOR.get(prop, []):
        r = K.run_harness_group(g)
        er = {'name': 'kani:' + g, 'kind': 'kani', 'status': r['status'], 'reason': r.get('reason', ''), 'wall_s': r.get('wall_s', 0.0),
              'harnesses': r['harnesses'], 'complete': r.get('complete'), 'cmd': r.get('cmd'), 'cache': r.get('cache'),
              'obligations': len(K.HARNESSES[g]['harnesses']),
              'discharged': sum(1 for h in r['harnesses'] if h.get('result') == 'successful'),
              'trusted': ['Kani/CBMC back end for ' + g],
              'samples': [{'obligation': 'kani:%s::%s' % (g, h['harness']), 'kind': 'kani harness', 'text': K.HARNESSES[g]['what'], 'checks': h.get('checks_total')} for h in r['harnesses'][:2]],
              'failures': []}
        for h in r['harnesses']:
            if h.get('result') == 'failed':
                er['failures'].append({
                    'engine': 'kani', 'kind': 'kani_harness', 'fn': K.HARNESSES[g].get('fn') or 'flussab::parser (combinator table)',
                    'clause': 'kani:%s::%s' % (g, h['harness']), 'tags': [prop],
                    'message': 'Kani harness %s FAILED: %s' % (h['harness'], '; '.join(h.get('failed_checks', [])[:4])),
                    'rendered': (h.get('playback') or '')[:3000],
                    'clause_text': K.HARNESSES[g]['what'],
                    'site': ((K.HARNESSES[g]['file'], 0), 0),
                    'counterexample': {'concrete_values': h.get('concrete_bytes')},
                    'scenario': {'kind': 'kani_playback', 'group': g, 'harness': h['harness'], 'values': h.get('concrete_bytes')},
                })
        out.append(er)
    return out


# ------------------------------------------------------------------------------------------ replay

SHIM = '''
    #[allow(dead_code)]
    mod kani {
        use std::cell::RefCell;
        thread_local! { static Q: RefCell<Option<Vec<Vec<u8>>>> = RefCell::new(None); }
        fn load() -> Vec<Vec<u8>> {
            let s = std::env::var("VP_REPLAY_VALUES").unwrap_or_default();
            s.split(';').filter(|x| !x.is_empty()).map(|v| v.split(',').filter(|b| !b.trim().is_empty()).map(|b| b.trim().parse::<u8>().expect("VP-REPLAY-INFRA-ERROR bad value")).collect()).collect()
        }
        pub fn any<T: Copy>() -> T {
            Q.with(|q| {
                let mut q = q.borrow_mut();
                if q.is_none() { let mut v = load(); v.reverse(); *q = Some(v); }
                let bytes = q.as_mut().unwrap().pop().expect("VP-REPLAY-INFRA-ERROR ran out of concrete values");
                assert_eq!(bytes.len(), std::mem::size_of::<T>(), "VP-REPLAY-INFRA-ERROR size mismatch");
                unsafe { std::ptr::read_unaligned(bytes.as_ptr() as *const T) }
            })
        }
    }
'''


def replay_kani(sc):
    g = sc['group']
    h = K.HARNESSES[g]
    ov = K.overlay_text(h['overlay'])
    modname = re.search(r'mod (verif_kani_\w+)', ov).group(1)
    ov = ov.replace('#[cfg(kani)]', '#[cfg(test)]')
    ov = re.sub(r'#\[kani::unwind\(\d+\)\]\s*', '', ov)
    ov = ov.replace('#[kani::proof]', '#[test]')
    ov = re.sub(r'(mod %s \{)' % modname, r'\1' + SHIM, ov, count=1)
    tmp = tempfile.mkdtemp(prefix='vp-replay-')
    try:
        subprocess.run('cd %s && tar cf - --exclude=target --exclude=.git . | (cd %s && tar xf -)' % (REPO, tmp), shell=True, check=True)
        with open(os.path.join(tmp, h['file']), 'a') as f:
            f.write('\n' + ov)
        vals = ';'.join(v for v in (sc.get('values') or []))
        env = dict(os.environ, CARGO_NET_OFFLINE='true', CARGO_TARGET_DIR=os.path.join(tmp, 'target'), VP_REPLAY_VALUES=vals)
        p = subprocess.run(['cargo', 'test', '--offline', '-p', h['crate'], '--lib', '%s::%s' % (modname, sc['harness']), '--', '--nocapture'],
                           cwd=tmp, env=env, capture_output=True, text=True, timeout=900)
        out = p.stdout + p.stderr
        print(out[-2500:])
        if 'VP-REPLAY-INFRA-ERROR' in out:
            print('NOT-REPRODUCED (replay infrastructure error)')
            return 0
        if re.search(r'test result: FAILED', out) or 'panicked at' in out:
            print('REPRODUCED: the concrete values of the verifier make the real code fail the harness assertion')
            return 1
        if re.search(r'test result: ok. 1 passed', out):
            print('NOT-REPRODUCED')
            return 0
        print('NOT-REPRODUCED (replay build problem)')
        return 0
    finally:
        shutil.rmtree(tmp, ignore_errors=True)


def replay(path):
    doc = json.load(open(path))
    print('replay of', path)
    print('obligation:', json.dumps(doc.get('obligation'), indent=1))
    sc = doc.get('scenario')
    if not sc:
        print('no concrete scenario recorded (the deciding verifier gives no counterexample); verifier output follows')
        print(doc.get('verifier_output'))
        print('NOT-REPRODUCED (no-failing-input-found)')
        return 0
    if sc.get('kind') == 'kani_playback':
        return replay_kani(sc)
    print('unknown scenario kind', sc.get('kind'))
    return 0
