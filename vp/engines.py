"""Non-Verus engines (Kani overlays, bounded native stand-ins), replay, per-property texts."""
import json, os, re, subprocess, time, tempfile, shutil
from . import kani as K

VERIF = os.path.dirname(os.path.dirname(os.path.abspath(__file__)))
REPO = os.environ.get('VP_REPO', '/repo')

# property -> Kani harness groups that are part of its deciding step
KANI_FOR = {
    'C13': ['swar_kernel'],
    'C01': ['swar_kernel', 'lower_kernel'],
    'C14': ['swar_kernel', 'lower_kernel'],
    'C15': ['comb'],
}

# property -> bounded native stand-in (never counted as proved): the BTOR2 line parser / writer, which the weaver cannot extract
FMT_SUITES = ['fmt:' + f for f in ['btor2', 'cnf', 'cnf8', 'wcnf', 'gcnf', 'satlog', 'satlog_ign', 'aag', 'aig', 'aag_stream', 'aig_stream']]
STREAMING = ['fmt:btor2', 'fmt:cnf', 'fmt:cnf8', 'fmt:wcnf', 'fmt:gcnf', 'fmt:aag_stream', 'fmt:aig_stream']
DIMACS = ['dimacs:cnf', 'dimacs:wcnf', 'dimacs:gcnf', 'dimacs:wcnf16']
AIGER = ['aiger:aag', 'aiger:aig']
# property -> bounded native stand-in suites (standin/src/*.rs); bounded, never counted as proved
STANDIN_FOR = {
    'C01': FMT_SUITES + ['ctor'], 'C02': ['reader'], 'C03': [s for s in FMT_SUITES if 'satlog' not in s and 'stream' not in s] + AIGER + DIMACS, 'C04': FMT_SUITES, 'C05': FMT_SUITES + ['renumber'],
    'C06': DIMACS + AIGER + ['dimacs:satlog'], 'C07': DIMACS + ['dimacs:satlog'], 'C08': FMT_SUITES + DIMACS + AIGER + ['ctor'], 'C09': STREAMING + ['reader', 'ctor'], 'C10': ['reader', 'mem'], 'C11': ['writer'],
    'C12': ['renumber'], 'C13': ['scan'], 'C14': ['reader', 'raw', 'fmt:btor2', 'fmt:cnf', 'fmt:gcnf', 'fmt:aag', 'fmt:aig'], 'C16': ['scan'],
}
SUITE_FN = {
    'fmt:btor2': ('flussab_btor2::parser::Parser::next_line / btor2::Line::write_into', 'flussab-btor2/src/parser.rs'),
    'fmt:cnf': ('flussab_cnf::cnf::Parser<i32> / write_header / write_clause', 'flussab-cnf/src/cnf.rs'),
    'fmt:cnf8': ('flussab_cnf::cnf::Parser<i8> with ignore_header', 'flussab-cnf/src/cnf.rs'),
    'fmt:wcnf': ('flussab_cnf::wcnf::Parser<isize> / writers', 'flussab-cnf/src/wcnf.rs'),
    'fmt:gcnf': ('flussab_cnf::gcnf::Parser<i16> / writers', 'flussab-cnf/src/gcnf.rs'),
    'fmt:satlog': ('flussab_cnf::sat_solver_log::parse_log<i32>', 'flussab-cnf/src/sat_solver_log.rs'),
    'fmt:satlog_ign': ('flussab_cnf::sat_solver_log::parse_log<i32> with ignore_unknown_lines', 'flussab-cnf/src/sat_solver_log.rs'),
    'fmt:aag': ('flussab_aiger::ascii::Parser<u32>::parse / Writer::write_aig', 'flussab-aiger/src/ascii.rs'),
    'fmt:aig': ('flussab_aiger::binary::Parser<u16>::parse / Writer::write_ordered_aig', 'flussab-aiger/src/binary.rs'),
    'fmt:aag_stream': ('flussab_aiger::ascii section readers (ParseInputs .. ParseSymbols, comment) with u8 literals', 'flussab-aiger/src/ascii.rs'),
    'fmt:aig_stream': ('flussab_aiger::binary section readers (ParseLatches .. ParseSymbols, comment) with u32 literals', 'flussab-aiger/src/binary.rs'),
    'dimacs:satlog': ('flussab_cnf::sat_solver_log::parse_log on structured logs', 'flussab-cnf/src/sat_solver_log.rs'),
    'dimacs:cnf': ('flussab_cnf::cnf::Parser<i32> on structured documents', 'flussab-cnf/src/cnf.rs'),
    'dimacs:wcnf': ('flussab_cnf::wcnf::Parser<isize> on structured documents', 'flussab-cnf/src/wcnf.rs'),
    'dimacs:wcnf16': ('flussab_cnf::wcnf::Parser<i16> on structured documents', 'flussab-cnf/src/wcnf.rs'),
    'dimacs:gcnf': ('flussab_cnf::gcnf::Parser<i16> on structured documents', 'flussab-cnf/src/gcnf.rs'),
    'aiger:aag': ('flussab_aiger::ascii Parser/Writer on structured values', 'flussab-aiger/src/ascii.rs'),
    'aiger:aig': ('flussab_aiger::binary Parser/Writer on structured values', 'flussab-aiger/src/binary.rs'),
    'reader': ('flussab::deferred_reader::DeferredReader (operation sequences against a stream model)', 'flussab/src/deferred_reader.rs'),
    'writer': ('flussab::deferred_writer::DeferredWriter (operation sequences against a sink model)', 'flussab/src/deferred_writer.rs'),
    'scan': ('flussab::text scanners against whole-string reference definitions', 'flussab/src/text.rs'),
    'renumber': ('flussab_aiger::aig::Renumber::renumber_aig on every small circuit', 'flussab-aiger/src/aig.rs'),
    'ctor': ('Parser::{from_read, from_boxed_dyn_read, from_buf_reader} of all six parsers against Parser::new', 'flussab-cnf/src/cnf.rs'),
    'mem': ('streaming parsers under a counting allocator', 'flussab/src/deferred_reader.rs'),
    'raw': ('raw-pointer paths of flussab::text / write::text / DeferredReader under valgrind memcheck', 'flussab/src/text.rs'),
}

LEVELS = {}          # property -> level category (default proof)
EXPLANATIONS = {}
ASSUMPTIONS_COMMON = [
    'Verus 0.2026.09.13 + Z3, rustc front end, and the weaver (syn) are trusted; rewrites applied are listed under coverage.rewrites_applied',
    'usize is 64 bit (global size_of usize == 8); streams shorter than 2^60 bytes, buffers up to 2^56 bytes, chunk sizes up to 2^28',
    'std::io::Read protocol as stated in prelude/base.rs (read_into): fixed content, finitely many consecutive Interrupted results',
]


def level_of(prop):
    return LEVELS.get(prop, 'proof')


def explanation_of(prop):
    return EXPLANATIONS.get(prop, 'contracts woven into mechanically extracted real function bodies, discharged by Verus (and Kani where listed); see DESIGN.md section 6/' + prop)


def assumptions_of(prop, trusted):
    a = list(ASSUMPTIONS_COMMON)
    a.append('every external_body / assume_specification / uninterp item listed in coverage.trusted_base')
    if prop in KANI_FOR:
        a.append('Kani 0.68 / CBMC 6.11: harnesses listed under coverage.back_ends.kani; parametricity for the finite combinator table (C15)')
    return a


def build_standin():
    """Builds /verif/standin against REPO (path dependencies are generated per run); returns (binary path | None, message)."""
    gen = os.environ.get('VP_GEN') or os.path.join(VERIF, 'gen')
    d = os.path.join(gen, 'standin')
    os.makedirs(os.path.join(d, 'src'), exist_ok=True)
    open(os.path.join(d, 'Cargo.toml'), 'w').write(open(os.path.join(VERIF, 'standin', 'Cargo.toml.in')).read().replace('@REPO@', REPO))
    for fn in os.listdir(os.path.join(VERIF, 'standin', 'src')):
        if fn.endswith('.rs'):
            src, dst = os.path.join(VERIF, 'standin', 'src', fn), os.path.join(d, 'src', fn)
            if not os.path.exists(dst) or open(src).read() != open(dst).read():
                shutil.copy(src, dst)
    if os.path.exists(os.path.join(REPO, 'Cargo.lock')):
        shutil.copy(os.path.join(REPO, 'Cargo.lock'), os.path.join(d, 'Cargo.lock'))
    tgt = os.environ.get('VP_STANDIN_TARGET') or (os.path.join(VERIF, 'standin', 'target') if REPO == '/repo' else os.path.join(d, 'target'))
    env = dict(os.environ, CARGO_NET_OFFLINE='true', CARGO_TARGET_DIR=tgt)
    p = subprocess.run(['cargo', 'build', '--release', '--offline', '-q'], cwd=d, env=env, capture_output=True, text=True, timeout=1800)
    exe = os.path.join(tgt, 'release', 'vp-standin')
    if p.returncode != 0 or not os.path.exists(exe):
        return None, (p.stderr or p.stdout)[-1500:]
    return exe, ''


_BUILT = {}


def _built():
    if 'exe' not in _BUILT:
        _BUILT['exe'], _BUILT['msg'] = build_standin()
    return _BUILT['exe'], _BUILT['msg']


def run_suite(suite, prop, tier, seed):
    t0 = time.time()
    name = 'standin:' + suite
    fn, path = SUITE_FN[suite]
    er = {'name': name, 'kind': 'bounded', 'status': 'ok', 'reason': '', 'failures': [], 'failures_n': 0, 'cases': 0, 'distinct_nontrivial': 0, 'bound': '', 'samples': []}
    exe, msg = _built()
    if exe is None:
        er.update(status='undecided', reason='the bounded stand-in does not build against this tree (public API changed?): ' + msg, wall_s=time.time() - t0)
        return er
    cmd = [exe, suite, prop, tier, str(seed)]
    if suite == 'raw':
        if not shutil.which('valgrind'):
            er.update(status='undecided', reason='valgrind is not installed; the raw suite decides nothing without it', wall_s=time.time() - t0)
            return er
        cmd = ['valgrind', '-q', '--error-exitcode=9'] + cmd
    try:
        p = subprocess.run(cmd, capture_output=True, text=True, timeout=3600 if tier == 'thorough' else 900)
    except subprocess.TimeoutExpired:
        er.update(status='undecided', reason='the bounded stand-in %s did not finish in time' % suite, wall_s=time.time() - t0)
        return er
    if suite == 'raw' and p.returncode == 9:
        # memcheck saw an access outside an allocation: the report is the counterexample
        first = (p.stderr or '').strip().split('\n\n')[0][:1500]
        er.update(status='failed', failures_n=1, wall_s=round(time.time() - t0, 2), bound='see suite raw', cases=0)
        er['failures'].append({
            'engine': 'standin', 'kind': 'bounded_standin', 'fn': fn, 'clause': '%s::C14_no_access_outside_an_allocation_valgrind_memcheck' % name, 'tags': [prop],
            'message': 'bounded stand-in raw under valgrind memcheck: invalid access: ' + first[:700], 'rendered': (p.stderr or '')[:3000],
            'clause_text': 'C14 no access outside an allocation (valgrind memcheck)', 'site': ((path, 0), 0),
            'counterexample': {'valgrind': first}, 'scenario': {'kind': 'standin', 'suite': 'raw', 'prop': prop, 'replay': [], 'check': 'valgrind memcheck'},
        })
        return er
    if p.returncode in (-4, -6, -7, -8, -11):
        # the real code brought the process down (abort from a debug precondition check of std, segmentation fault, illegal instruction ...):
        # no safe call may do that; the diagnostic is all there is, the replay is the suite itself
        import signal as _sig
        why = 'the stand-in process was terminated by %s while running suite %s; last output: %s' % (_sig.Signals(-p.returncode).name, suite, ((p.stderr or '') + (p.stdout or ''))[-700:])
        er.update(status='failed', failures_n=1, wall_s=round(time.time() - t0, 2), bound='see suite ' + suite, cases=0)
        er['failures'].append({
            'engine': 'standin', 'kind': 'bounded_standin', 'fn': fn, 'clause': '%s::%s_the_process_is_not_brought_down' % (name, prop), 'tags': [prop],
            'message': 'bounded stand-in %s: %s' % (suite, why), 'rendered': why, 'clause_text': '%s the real code does not bring the process down (abort, segmentation fault)' % prop,
            'site': ((path, 0), 0), 'counterexample': {'signal': -p.returncode, 'output': why[-900:]},
            'scenario': {'kind': 'standin', 'suite': suite, 'prop': prop, 'replay': ['--suite--', tier, str(seed)], 'check': 'process terminated by signal'},
        })
        return er
    try:
        d = json.loads(p.stdout.strip().splitlines()[-1])
    except Exception:
        er.update(status='undecided', reason='the bounded stand-in %s produced no result (exit %s): %s' % (suite, p.returncode, ((p.stderr or '') + (p.stdout or ''))[-600:]), wall_s=time.time() - t0)
        return er
    er.update(cases=d['parser_runs'], distinct_nontrivial=d['distinct_nontrivial'], bound=d['bound'], failures_n=len(d['failures']), wall_s=round(time.time() - t0, 2),
              samples=[{'note': 'BOUNDED, not a proof: the real crates run natively on %d distinct inputs / cases (%d runs) of suite %s' % (d['distinct_inputs'], d['parser_runs'], suite)}])
    seen = set()
    for f in d['failures']:
        if not f['check'].startswith(prop) and not (prop == 'C14' and f['check'].startswith('C02')):
            continue            # a suite run for one property reports the checks of that property only
        if f['check'] in seen:
            continue            # one violation per violated check; the replay file carries the first failing input
        seen.add(f['check'])
        er['status'] = 'failed'
        er['failures'].append({
            'engine': 'standin', 'kind': 'bounded_standin', 'fn': fn,
            'clause': '%s::%s' % (name, re.sub(r'[^A-Za-z0-9]+', '_', f['check']).strip('_')[:90]), 'tags': [prop],
            'message': 'bounded stand-in %s: %s fails on %s: %s' % (suite, f['check'], f['input'][:300], f['detail'][:600]),
            'rendered': json.dumps(f, indent=1)[:3000], 'clause_text': f['check'], 'site': ((path, 0), 0),
            'counterexample': {'input': f['input'][:2000], 'replay_args': f['replay']},
            'scenario': {'kind': 'standin', 'suite': suite, 'prop': prop, 'replay': f['replay'], 'check': f['check']},
        })
    return er


def run_standin(prop, tier, seed):
    from concurrent.futures import ThreadPoolExecutor
    suites = STANDIN_FOR[prop]
    _built()
    with ThreadPoolExecutor(max_workers=min(len(suites), 12)) as ex:
        return list(ex.map(lambda s: run_suite(s, prop, tier, seed), suites))


def replay_standin(sc):
    exe, msg = build_standin()
    if exe is None:
        print('NOT-REPRODUCED (stand-in does not build: %s)' % msg[-300:])
        return 0
    if sc.get('replay') and sc['replay'][0] == '--suite--':
        p = subprocess.run([exe, sc['suite'], sc.get('prop') or 'all', sc['replay'][1], sc['replay'][2]], capture_output=True, text=True, timeout=1800)
        print(((p.stderr or '') + (p.stdout or ''))[-1500:])
        print('REPRODUCED: the suite brings the process down again (exit %s)' % p.returncode if p.returncode < 0 else 'NOT-REPRODUCED')
        return 1 if p.returncode < 0 else 0
    args = [exe, '--replay', sc['suite'], sc.get('prop') or 'all'] + list(sc['replay'])
    if sc['suite'] == 'raw':
        p = subprocess.run(['valgrind', '-q', '--error-exitcode=9', exe, 'raw', sc.get('prop') or 'C14', 'quick', '1'], capture_output=True, text=True, timeout=900)
        print((p.stderr or '')[:3000])
        print('REPRODUCED: valgrind memcheck reports an invalid access in the real code' if p.returncode == 9 else 'NOT-REPRODUCED')
        return 1 if p.returncode == 9 else 0
    try:
        p = subprocess.run(args, capture_output=True, text=True, timeout=900)
    except subprocess.TimeoutExpired:
        print('NOT-REPRODUCED (replay timed out)')
        return 0
    print(p.stdout[-3000:])
    print('check that failed:', sc.get('check'))
    print('REPRODUCED: the real code fails the check on the recorded input' if p.returncode == 1 else 'NOT-REPRODUCED')
    return 1 if p.returncode == 1 else 0


def run_engines(prop, tier, seed):
    out = []
    if prop in STANDIN_FOR and not os.environ.get('VP_NO_STANDIN'):      # VP_NO_STANDIN=1: proofs only (used to audit the contracts against the seeded changes)
        out.extend(run_standin(prop, tier, seed))
    for g in ([] if os.environ.get('VP_NO_PROOFS') else KANI_FOR.get(prop, [])):
        r = K.run_harness_group(g)
        er = {'name': 'kani:' + g, 'kind': 'kani', 'status': r['status'], 'reason': r.get('reason', ''), 'wall_s': r.get('wall_s', 0.0),
              'harnesses': r['harnesses'], 'complete': r.get('complete'), 'cmd': r.get('cmd'), 'cache': r.get('cache'),
              'obligations': len(K.HARNESSES[g]['harnesses']),
              'discharged': sum(1 for h in r['harnesses'] if h.get('result') == 'successful'),
              'trusted': ['Kani/CBMC back end for ' + g],
              'samples': [{'obligation': 'kani:%s::%s' % (g, h['harness']), 'kind': 'kani harness', 'text': K.HARNESSES[g]['what'], 'checks': h.get('checks_total')} for h in r['harnesses'][:2]],
              'failures': []}
        for h in r['harnesses']:
            if h.get('result') == 'failed':
                er['failures'].append({
                    'engine': 'kani', 'kind': 'kani_harness', 'fn': K.HARNESSES[g].get('fn') or 'flussab::parser (combinator table)',
                    'clause': 'kani:%s::%s' % (g, h['harness']), 'tags': [prop],
                    'message': 'Kani harness %s FAILED: %s' % (h['harness'], '; '.join(h.get('failed_checks', [])[:4])),
                    'rendered': (h.get('playback') or '')[:3000],
                    'clause_text': K.HARNESSES[g]['what'],
                    'site': ((K.HARNESSES[g]['file'], 0), 0),
                    'counterexample': {'concrete_values': h.get('concrete_bytes')},
                    'scenario': {'kind': 'kani_playback', 'group': g, 'harness': h['harness'], 'values': h.get('concrete_bytes')},
                })
        out.append(er)
    return out


# ------------------------------------------------------------------------------------------ replay

SHIM = '''
    #[allow(dead_code)]
    mod kani {
        use std::cell::RefCell;
        thread_local! { static Q: RefCell<Option<Vec<Vec<u8>>>> = RefCell::new(None); }
        fn load() -> Vec<Vec<u8>> {
            let s = std::env::var("VP_REPLAY_VALUES").unwrap_or_default();
            s.split(';').filter(|x| !x.is_empty()).map(|v| v.split(',').filter(|b| !b.trim().is_empty()).map(|b| b.trim().parse::<u8>().expect("VP-REPLAY-INFRA-ERROR bad value")).collect()).collect()
        }
        pub fn any<T: Copy>() -> T {
            Q.with(|q| {
                let mut q = q.borrow_mut();
                if q.is_none() { let mut v = load(); v.reverse(); *q = Some(v); }
                let bytes = q.as_mut().unwrap().pop().expect("VP-REPLAY-INFRA-ERROR ran out of concrete values");
                assert_eq!(bytes.len(), std::mem::size_of::<T>(), "VP-REPLAY-INFRA-ERROR size mismatch");
                unsafe { std::ptr::read_unaligned(bytes.as_ptr() as *const T) }
            })
        }
    }
'''


def replay_kani(sc):
    g = sc['group']
    h = K.HARNESSES[g]
    ov = K.overlay_text(h['overlay'])
    modname = re.search(r'mod (verif_kani_\w+)', ov).group(1)
    ov = ov.replace('#[cfg(kani)]', '#[cfg(test)]')
    ov = re.sub(r'#\[kani::unwind\(\d+\)\]\s*', '', ov)
    ov = ov.replace('#[kani::proof]', '#[test]')
    ov = re.sub(r'(mod %s \{)' % modname, r'\1' + SHIM, ov, count=1)
    tmp = tempfile.mkdtemp(prefix='vp-replay-')
    try:
        subprocess.run('cd %s && tar cf - --exclude=target --exclude=.git . | (cd %s && tar xf -)' % (REPO, tmp), shell=True, check=True)
        with open(os.path.join(tmp, h['file']), 'a') as f:
            f.write('\n' + ov)
        vals = ';'.join(v for v in (sc.get('values') or []))
        env = dict(os.environ, CARGO_NET_OFFLINE='true', CARGO_TARGET_DIR=os.path.join(tmp, 'target'), VP_REPLAY_VALUES=vals)
        p = subprocess.run(['cargo', 'test', '--offline', '-p', h['crate'], '--lib', '%s::%s' % (modname, sc['harness']), '--', '--nocapture'],
                           cwd=tmp, env=env, capture_output=True, text=True, timeout=900)
        out = p.stdout + p.stderr
        print(out[-2500:])
        if 'VP-REPLAY-INFRA-ERROR' in out:
            print('NOT-REPRODUCED (replay infrastructure error)')
            return 0
        if re.search(r'test result: FAILED', out) or 'panicked at' in out:
            print('REPRODUCED: the concrete values of the verifier make the real code fail the harness assertion')
            return 1
        if re.search(r'test result: ok. 1 passed', out):
            print('NOT-REPRODUCED')
            return 0
        print('NOT-REPRODUCED (replay build problem)')
        return 0
    finally:
        shutil.rmtree(tmp, ignore_errors=True)


def replay(path):
    doc = json.load(open(path))
    print('replay of', path)
    print('obligation:', json.dumps(doc.get('obligation'), indent=1))
    sc = doc.get('scenario')
    if not sc:
        print('no concrete scenario recorded (the deciding verifier gives no counterexample); verifier output follows')
        print(doc.get('verifier_output'))
        print('NOT-REPRODUCED (no-failing-input-found)')
        return 0
    if sc.get('kind') == 'kani_playback':
        return replay_kani(sc)
    if sc.get('kind') == 'standin':
        return replay_standin(sc)
    print('unknown scenario kind', sc.get('kind'))
    return 0
