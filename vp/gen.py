"""Assembles gen/<unit>.rs from the weaver output and the contract files, with a source map."""
import json, os, re, subprocess, hashlib, glob
from . import spec as S

VERIF = os.path.dirname(os.path.dirname(os.path.abspath(__file__)))
WEAVE = os.path.join(VERIF, 'weave', 'target', 'release', 'weave')
REPO = os.environ.get('VP_REPO', '/repo')


class GenError(Exception):
    """Unsupported construct / lost anchor: the run is UNDECIDED (exit 2), never an alarm."""
    pass


def load_all():
    modules = {}
    for f in sorted(glob.glob(os.path.join(VERIF, 'contracts', '*.vspec'))):
        if os.path.basename(f) == 'units.vspec':
            continue
        S.parse_vspec(f, modules)
    units = S.parse_units(os.path.join(VERIF, 'contracts', 'units.vspec'))
    return modules, units


def resolve_entry(modules, p):
    """'a::b::Type::f' -> (ModuleSpec, 'Type::f' | '*')"""
    best = None
    for mp in modules:
        if p == mp or p.startswith(mp + '::'):
            if best is None or len(mp) > len(best):
                best = mp
    if best is None:
        raise S.SpecError('unit entry %s: no such module' % p)
    rest = p[len(best) + 2:] if len(p) > len(best) else '*'
    return modules[best], rest


class Line:
    __slots__ = ('text', 'kind', 'fn', 'clause', 'src')

    def __init__(self, text, kind='raw', fn=None, clause=None, src=None):
        self.text = text
        self.kind = kind
        self.fn = fn
        self.clause = clause
        self.src = src


class UnitGen:
    def __init__(self, unit, modules, rules_text, type_map, repo=REPO):
        self.unit = unit
        self.modules = modules
        self.rules_text = rules_text
        self.type_map = type_map
        self.repo = repo
        self.lines = []
        self.fn_modes = {}        # fn path -> 'verify' | 'stub'
        self.fn_specs = {}        # fn path -> FnSpec
        self.clauses = {}         # clause id -> Clause (with .fn, .tags)
        self.rewrites = []        # (fn path, rule, line, what)
        self.weave_out = None
        self.verified_fns = []
        self.verified_fns_with_body = []
        self.stub_fns = []
        self.errors = []

    # ---------------------------------------------------------------- selection
    def select(self):
        for mode, p in self.unit.entries:
            m, rest = resolve_entry(self.modules, p)
            fns = [f for f in m.fns if rest == '*' or f.name == rest]
            if not fns:
                raise S.SpecError('unit %s: %s matches no fn block' % (self.unit.name, p))
            for f in fns:
                if rest == '*' and f.path in self.fn_modes:
                    continue   # explicit entries win over wildcards
                self.fn_modes[f.path] = mode if not f.via else 'stub'
                self.fn_specs[f.path] = f
        self.used_modules = []
        for mp, m in self.modules.items():
            if any(f.path in self.fn_modes for f in m.fns) or mp in self.unit.includes:
                self.used_modules.append(mp)
        # ancestors
        anc = set()
        for mp in self.used_modules:
            parts = mp.split('::')
            for k in range(1, len(parts)):
                anc.add('::'.join(parts[:k]))
        self.all_modules = sorted(set(self.used_modules) | anc)

    # ---------------------------------------------------------------- weave
    def plan(self):
        ghost = {}
        files = {}
        for mp in self.used_modules:
            m = self.modules[mp]
            if not m.file:
                continue
            items = files.setdefault(m.file, [])
            for it in m.items:
                items.append({'kind': it.kind, 'name': it.name, 'opts': it.opts, '_mod': mp})
                if it.ghost:
                    ghost[it.name] = [[g[0], g[1], g[2]] for g in it.ghost]
            for f in m.fns:
                if f.path not in self.fn_modes:
                    continue
                if f.opts.get('synthetic') is not None:
                    continue
                anchors = [{'id': p.id, 'place': p.place, 'anchor': p.anchor, 'nth': p.nth} for p in f.proofs]
                opts = {'anchors': anchors if self.fn_modes[f.path] == 'verify' else [],
                        'sites': dict([('*', m.sitedefault)] if m.sitedefault else [], **{str(k): v for k, v in f.sites.items()}),
                        'lifts': {str(k): v for k, v in f.lifts.items()},
                        'loop_anchors': {str(k): lp.anchor for k, lp in f.loops.items() if getattr(lp, 'anchor', None)},
                        'substs': [[a, b] for (a, b, _) in f.substs],
                        'renames': f.renames, 'aliases': f.aliases,
                        'rules': scoped_rules(self.rules_text, f.path)}
                if 'for_by_index' in f.opts:
                    opts['for_by_index'] = True      # `for x in S` with S a slice-typed place (R6c)
                if 'lifted' in f.opts:
                    parent, cn = f.opts['lifted'].split()
                    pf = [x for x in m.fns if x.name == parent]
                    if not pf or int(cn) not in pf[0].lifts:
                        raise S.SpecError('%s: lifted from %s closure %s, but the parent has no such lift' % (f.path, parent, cn))
                    l = pf[0].lifts[int(cn)]
                    opts['lifted_from'] = {'fn': parent, 'closure': int(cn), 'params': l['params'], 'ret': l['ret'] or '', 'parent_aliases': pf[0].aliases}
                    opts['sites'] = {str(k): v for k, v in list(pf[0].sites.items()) + list(f.sites.items())}
                    opts['lifts'] = {str(k): v for k, v in list(pf[0].lifts.items()) + list(f.lifts.items())}
                items.append({'kind': 'fn', 'name': f.name, 'opts': opts, '_mod': mp})
        return {'repo': self.repo, 'rules': scoped_rules(self.rules_text, ''), 'type_map': self.type_map, 'ghost_fields': ghost,
                'templates': load_templates(),
                'files': [{'path': p, 'items': its} for p, its in files.items()]}

    def run_weave(self, workdir):
        plan = self.plan()
        pf = os.path.join(workdir, self.unit.name + '.plan.json')
        json.dump(plan, open(pf, 'w'), indent=1)
        r = subprocess.run([WEAVE, pf], capture_output=True, text=True)
        if r.returncode != 0:
            raise GenError('weave failed: ' + r.stderr[-2000:])
        out = json.loads(r.stdout)
        if 'fatal' in out:
            raise GenError('weave: ' + out['fatal'])
        self.weave_out = {}
        self.audit = {}
        for fo, fp in zip(out['files'], plan['files']):
            if 'fatal' in fo:
                raise GenError('weave %s: %s' % (fo['path'], fo['fatal']))
            self.audit[fo['path']] = fo.get('all_fns', [])
            for io, ip in zip(fo['items'], fp['items']):
                key = (ip['_mod'], ip['kind'], ip['name'])
                io['_file'] = fo['path']
                self.weave_out[key] = io
                if 'error' in io:
                    raise GenError('%s %s::%s: %s' % (ip['kind'], ip['_mod'], ip['name'], io['error']))
                if io.get('errors'):
                    raise GenError('%s %s::%s: %s' % (ip['kind'], ip['_mod'], ip['name'], '; '.join(io['errors'])))
        return out

    # ---------------------------------------------------------------- emission
    def emit(self, text, **kw):
        for t in text.split('\n'):
            self.lines.append(Line(t, **kw))

    def generate(self, canary=False):
        self.lines = []
        self.clauses = {}
        self.verified_fns = []
        self.verified_fns_with_body = []
        self.stub_fns = []
        self.pending_impl = {}
        self.emit('#![allow(unused_imports, unused_variables, unused_mut, dead_code, unused_assignments, unreachable_code, non_snake_case, unused_parens, unused_braces)]')
        self.emit('#![feature(allocator_api)]')
        self.emit('use vstd::prelude::*;')
        self.emit('verus! {')
        for p in self.unit.prelude:
            path = os.path.join(VERIF, 'prelude', p)
            for k, l in enumerate(open(path).read().split('\n')):
                m = re.match(r'\s*//@include (\S+)', l)
                if m:
                    for k2, l2 in enumerate(verus_view(open(os.path.join(VERIF, 'prelude', m.group(1))).read())):
                        self.lines.append(Line(l2, kind='prelude', src=('prelude/' + m.group(1), k2 + 1)))
                    continue
                self.lines.append(Line(l, kind='prelude', src=('prelude/' + p, k + 1)))
        # module tree
        tree = {}
        for mp in self.all_modules:
            node = tree
            for part in mp.split('::'):
                node = node.setdefault(part, {})
        self._emit_tree(tree, [], canary)
        self.emit('} // verus!')
        self.emit('fn main() {}')

    def _emit_tree(self, tree, prefix, canary):
        for name, sub in tree.items():
            mp = '::'.join(prefix + [name])
            self.emit('pub mod %s {' % name)
            if mp in self.modules:
                self._emit_module(self.modules[mp], canary)
            self._emit_tree(sub, prefix + [name], canary)
            self.emit('} // mod %s' % name)

    def _emit_module(self, m, canary):
        for (buf, src, cond) in m.raw:
            if cond.startswith('requires '):
                need = cond.split()[1:]
                if not all(x in self.all_modules for x in need):
                    continue
            for k, l in enumerate(buf):
                self.lines.append(Line(l, kind='raw', src=(os.path.relpath(src[0], VERIF), src[1] + k)))
        if m.path not in self.used_modules:
            return
        # items
        for it in m.items:
            io = self.weave_out[(m.path, it.kind, it.name)]
            src = (io['_file'], io.get('src_line', 0))
            for rw in io.get('rewrites', []):
                self.rewrites.append((m.path + '::' + it.name, rw.get('rule'), rw.get('line', 0), rw.get('what', '')))
            if io.get('derives'):
                self.emit('#[derive(%s)]' % ', '.join(io['derives']), kind='item', src=src)
            if it.kind == 'struct':
                gen = io.get('generics', '')
                if io.get('tuple'):
                    fields = ', '.join('pub ' + f['ty'] for f in io['fields'])
                    self.emit('pub struct %s%s(%s);' % (it.name, gen, fields), kind='item', src=src)
                else:
                    self.emit('pub struct %s%s {' % (it.name, gen), kind='item', src=src)
                    for f in io['fields']:
                        self.emit('    pub %s: %s,' % (f['name'], f['ty']), kind='item', src=src)
                    for g in it.ghost:
                        self.emit('    pub %s: %s,' % (g[0], g[1]), kind='item', src=src)
                    self.emit('}', kind='item', src=src)
            elif it.kind == 'trait':
                self._emit_trait(m, it, io, canary)
            elif 'impl_key' in io:
                self.pending_impl.setdefault(norm_ws(io['impl_key']), []).extend([(t, (io['_file'], l)) for (t, l) in io['lines']])
            elif 'assoc_of' in io:
                self.emit('impl %s {' % io['assoc_of'])
                for (t, l) in io['lines']:
                    self.emit('    ' + t, kind='item', src=(io['_file'], l))
                self.emit('}')
            else:
                for (t, l) in io['lines']:
                    self.emit(t, kind='item', src=(io['_file'], l))
        # fns grouped by impl header, preserving order
        groups = []
        trait_names = set(it.name for it in m.items if it.kind == 'trait')
        for f in m.fns:
            if f.path not in self.fn_modes:
                continue
            if '::' in f.name and f.name.split('::')[0] in trait_names:
                continue   # emitted inside the trait declaration
            if f.opts.get('synthetic') is not None:
                hdr = None
                io = None
            else:
                io = self.weave_out[(m.path, 'fn', f.name)]
                hdr = self._impl_header(f, io)
            if groups and groups[-1][0] == hdr:
                groups[-1][1].append((f, io))
            else:
                groups.append((hdr, [(f, io)]))
        for hdr, fl in groups:
            if hdr:
                self.emit(hdr + ' {')
                for (t, src) in self.pending_impl.pop(norm_ws(hdr), []):
                    self.emit('    ' + t, kind='item', src=src)
                for f, io in fl:
                    for rl in f.implraw:
                        self.emit('    ' + rl, kind='raw', src=f.src)
            for f, io in fl:
                self._emit_fn(f, io, canary)
            if hdr:
                self.emit('}')

    def _emit_trait(self, m, it, io, canary):
        src = (io['_file'], io['src_line'])
        sup = (': ' + io['supertraits']) if io.get('supertraits') else ''
        self.emit('pub trait %s%s%s {' % (it.name, io.get('generics', ''), sup), kind='item', src=src)
        for c in io['consts']:
            self.emit('    ' + c, kind='item', src=src)
        for rl in it.rawlines:
            self.emit('    ' + rl, kind='raw', src=it.src)
        for fname in io['fns']:
            fs = [f for f in m.fns if f.name == it.name + '::' + fname]
            if not fs or fs[0].path not in self.fn_modes:
                raise GenError('needs-contract: trait fn %s::%s has no fn block / is not selected' % (it.name, fname))
            fio = self.weave_out[(m.path, 'fn', fs[0].name)]
            self._emit_fn(fs[0], fio, canary, in_trait=True)
        self.emit('}', kind='item', src=src)

    def _impl_header(self, f, io):
        im = io['impl']
        if im.get('trait_decl'):
            return None
        if im.get('self_ty') is None:
            return None
        gen = f.implgenerics if f.implgenerics is not None else (im.get('generics') or '')
        if im.get('trait') and f.opts.get('inherent') is None:
            h = 'impl%s %s for %s' % (gen, im['trait'], im['self_ty'])
        else:
            h = 'impl%s %s' % (gen, im['self_ty'])
        if im.get('where') and f.implgenerics is None:
            h += ' where ' + im['where']
        return h

    def _clause_id(self, f, c, idx):
        base = f.path
        return '%s#%s' % (base, c.label if c.label else '%s%d' % (c.kind[:3], idx))

    def _emit_fn(self, f, io, canary, in_trait=False):
        mode = self.fn_modes[f.path]
        fnpath = f.path
        sig = io['sig']
        src = (io['_file'], io['src_line'])
        for rw in io.get('rewrites', []):
            self.rewrites.append((fnpath, rw.get('rule'), rw.get('line', 0), rw.get('what', '')))
        for (a, b, why) in f.substs:
            self.rewrites.append((fnpath, 'S', io['src_line'], 'subst /%s/ => /%s/ (%s)' % (a, b, why)))
        name = f.rename or sig['name']
        params = []
        if sig['self']:
            s = sig['self']
            if s.replace(' ', '') == 'mutself':
                raise GenError('unsupported-construct: `mut self` receiver in %s' % fnpath)
            params.append(s)
        for p in sig['params']:
            ty = f.paramtypes.get(p['name'], p['ty'])
            if p['name'] in f.paramtypes:
                self.rewrites.append((fnpath, 'R8b', io['src_line'], 'parameter %s: %s -> %s' % (p['name'], p['ty'], ty)))
            params.append('%s: %s' % (p['name'], ty))
        gen = f.generics if f.generics is not None else sig['generics']
        if f.generics is not None:
            self.rewrites.append((fnpath, 'R7', io['src_line'], 'generics %s where %s -> %s' % (sig['generics'], sig['where'], f.generics)))
        where = f.where if f.where is not None else (sig['where'] if f.generics is None else '')
        ret = f.rettype or sig['ret']
        for a in f.attrs:
            self.emit('    ' + a, kind='fnhead', fn=fnpath, src=src)
        if in_trait and not io['has_body']:
            pass
        elif mode == 'stub':
            self.emit('    #[verifier::external_body]', kind='fnhead', fn=fnpath, src=src)
            self.stub_fns.append(fnpath)
        else:
            self.verified_fns.append(fnpath)
        vis = 'pub ' if not io['impl'].get('trait') or f.opts.get('inherent') is not None else ''
        if in_trait:
            vis = ''
        unsafe = ''  # unsafe fns are emitted as safe fns whose requires states the documented safety condition
        head = '    %s%sfn %s%s(%s)' % (vis, unsafe, name, gen, ', '.join(params))
        if ret is not None:
            if ret.strip() == '!':
                head += ' -> !'
            else:
                head += ' -> (%s: %s)' % (f.returns, ret)
        self.emit(head, kind='fnhead', fn=fnpath, src=src)
        if where:
            self.emit('        where ' + where + ',', kind='fnhead', fn=fnpath, src=src)
        # contract clauses
        counters = {}
        for kind in ('requires', 'recommends', 'ensures', 'decreases'):
            cs = [c for c in f.clauses if c.kind == kind]
            if not cs:
                continue
            if kind == 'decreases' and mode == 'stub':
                continue
            self.emit('        ' + kind, kind='fnhead', fn=fnpath, src=src)
            for c in cs:
                idx = counters.get(kind, 0)
                counters[kind] = idx + 1
                cid = self._clause_id(f, c, idx)
                self._register_clause(cid, c, f)
                self._emit_clause_text(c, cid, fnpath, '            ', ',')
        if not io['has_body']:
            self.emit('    ;', kind='fnhead', fn=fnpath, src=src)
            return
        if mode == 'stub':
            self.emit('    { unimplemented!() }', kind='fnhead', fn=fnpath, src=src)
            return
        if not io['has_body']:
            self.emit('    ;', kind='fnhead', fn=fnpath, src=src)
            return
        self.emit('    {', kind='fnhead', fn=fnpath, src=src)
        self.verified_fns_with_body.append(fnpath)
        self._canary = (canary, src)
        self._emit_body(f, io)
        self.emit('    }', kind='fnhead', fn=fnpath, src=src)

    def _register_clause(self, cid, c, f):
        if cid in self.clauses:
            raise S.SpecError('duplicate clause id %s' % cid)
        c.id = cid
        c.fn = f.path
        if c.tags:
            c.eff_tags = c.tags
        elif c.kind in ('invariant', 'invariant_except_break', 'decreases') or (c.kind == 'ensures' and c not in f.clauses):
            # an untagged loop clause supports every contract clause of its function
            t = list(f.tags)
            for c2 in f.clauses:
                for x in c2.tags:
                    if x not in t:
                        t.append(x)
            c.eff_tags = t
        else:
            c.eff_tags = f.tags
        self.clauses[cid] = c

    def _emit_clause_text(self, c, cid, fnpath, indent, term):
        n = len(c.text)
        for k, t in enumerate(c.text):
            suffix = term if k == n - 1 else ''
            self.lines.append(Line(indent + t + suffix, kind='clause', fn=fnpath, clause=cid, src=c.src))

    def _emit_body(self, f, io):
        fnpath = f.path
        file = io['_file']
        proofs = {p.id: p for p in f.proofs}
        used_proofs = set()
        used_loops = set()
        unwind_txt = None
        if f.unwind:
            cid = self._clause_id(f, f.unwind, 0)
            self._register_clause(cid, f.unwind, f)
            unwind_txt = ' '.join(f.unwind.text)
        body = io['body']
        base = '        '
        # `hide(f);` statements must come first in the body: definitions the proof of this function does not need (query size)
        hides = [] if 'nohide' in f.opts else list(f.module.hidedefault)
        hides += f.opts.get('hide', '').split()
        for h in hides:
            self.emit(base + 'hide(%s);' % h, kind='proof', fn=fnpath, src=f.src)
        if getattr(self, '_canary', (False, None))[0]:
            self.emit('        proof { assert(false); } // canary', kind='canary', fn=fnpath, src=self._canary[1])
        for (t, l) in body:
            st = t.strip()
            ind = base + t[:len(t) - len(t.lstrip())]
            m = re.match(r'__vp_loop !\((\d+)\);$', st)
            if m:
                n = int(m.group(1))
                # find the previous emitted line of this fn ending with '{'
                k = len(self.lines) - 1
                while k >= 0 and self.lines[k].text.strip() == '':
                    k -= 1
                prev = self.lines[k]
                if not prev.text.rstrip().endswith('{'):
                    raise GenError('internal: loop marker not after an opening brace in %s' % fnpath)
                prev.text = prev.text.rstrip()[:-1].rstrip()
                lp = f.loops.get(n)
                pind = prev.text[:len(prev.text) - len(prev.text.lstrip())]
                if lp:
                    used_loops.add(n)
                    counters = {}
                    for kind in ('invariant_except_break', 'invariant', 'ensures', 'decreases'):
                        cs = [c for c in lp.clauses if c.kind == kind]
                        if not cs:
                            continue
                        self.emit(pind + '    ' + kind, kind='loophead', fn=fnpath, src=(file, l))
                        for c in cs:
                            idx = counters.get(kind, 0)
                            counters[kind] = idx + 1
                            cid = '%s#%s' % (fnpath, c.label if c.label else 'loop%d.%s%d' % (n, kind[:3] if kind != 'invariant_except_break' else 'ieb', idx))
                            self._register_clause(cid, c, f)
                            self._emit_clause_text(c, cid, fnpath, pind + '        ', ',')
                self.emit(pind + '{', kind='body', fn=fnpath, src=(file, l))
                continue
            m = re.match(r'__vp_proof !\((\w+)\);$', st)
            if m:
                p = proofs[m.group(1)]
                used_proofs.add(p.id)
                if not p.raw:
                    self.emit(ind + 'proof {', kind='proof', fn=fnpath, src=p.src)
                for k, pl in enumerate(p.text):
                    self.lines.append(Line(ind + '    ' + pl.strip(), kind='proof', fn=fnpath, clause='%s#proof.%s' % (fnpath, p.id), src=(p.src[0], p.src[1] + 1 + k)))
                if not p.raw:
                    self.emit(ind + '}', kind='proof', fn=fnpath, src=p.src)
                continue
            m = re.match(r'__vp_dassert !\((\d+)\);?$', st)
            if m:
                n = int(m.group(1))
                c = f.dasserts.get(n)
                if c is None:
                    raise GenError('needs-contract: debug_assert! #%d of %s has no spec-level reading (dassert %d:)' % (n, fnpath, n))
                cid = '%s#dassert%d' % (fnpath, n)
                self._register_clause(cid, c, f)
                self.lines.append(Line(ind + 'assert(' + ' '.join(c.text) + ');', kind='clause', fn=fnpath, clause=cid, src=(file, l)))
                continue
            if re.match(r'__vp_closure !\(\d+\);$', st):
                continue
            if '__vp_unwind !()' in t:
                if unwind_txt is None:
                    rep = '{ unwind_point() }'
                    t2 = t.replace('__vp_unwind !()', rep)
                    self.lines.append(Line(base + t2, kind='body', fn=fnpath, src=(file, l)))
                else:
                    rep = '{ proof { assert(%s); } unwind_point() }' % unwind_txt
                    t2 = t.replace('__vp_unwind !()', rep)
                    self.lines.append(Line(base + t2, kind='clause', fn=fnpath, clause=f.unwind.id, src=(file, l)))
                continue
            if '__vp_' in t.replace('__vp_scrut', '').replace('__vp_self', '').replace('__vp_ret', '').replace('__vp_k', '').replace('__vp_eta', '').replace('__vp_s', '').replace('__vp_i', '').replace('__vp_arr', '').replace('__vp_or', ''):
                raise GenError('internal: unreplaced marker in %s: %s' % (fnpath, t))
            self.lines.append(Line(base + t, kind='body', fn=fnpath, src=(file, l)))
        vanished_loops = set(io.get('vanished_loops') or [])
        vanished_proofs = set(io.get('vanished_proofs') or [])
        for p in f.proofs:
            if p.id not in used_proofs and p.id not in vanished_proofs:
                raise GenError('lost anchor: proof block %s of %s was not placed' % (p.id, fnpath))
        for n in f.loops:
            if n not in used_loops and n not in vanished_loops:
                raise GenError('lost anchor: loop %d of %s does not exist (function has %d loops)' % (n, fnpath, io['loops']))
        if vanished_loops:
            # a named loop that is gone: its contract constrains nothing any more; the function's other obligations decide
            self.notes = getattr(self, 'notes', []) + ['%s: contract loop(s) %s no longer exist in the source; their clauses were dropped' % (fnpath, sorted(vanished_loops))]
        for n in f.dasserts:
            if n >= io['dasserts']:
                raise GenError('lost anchor: debug_assert #%d of %s does not exist' % (n, fnpath))

    def text(self):
        return '\n'.join(l.text for l in self.lines) + '\n'


def norm_ws(s):
    return re.sub(r'\s+', '', s)


def scoped_rules(text, fnpath):
    """Rules may be scoped: `@<module path prefix> ID: pat => rep` applies only to functions under that prefix."""
    out = []
    for l in text.split('\n'):
        st = l.strip()
        if st.startswith('@'):
            scope, rest = st[1:].split(None, 1)
            if fnpath.startswith(scope):
                out.append(rest)
        else:
            out.append(l)
    return '\n'.join(out)


def verus_view(text):
    """Shared plain-Rust/Verus text: `//@ ` lines are uncommented, lines ending in `//@-` are dropped."""
    out = []
    for l in text.split('\n'):
        if l.rstrip().endswith('//@-'):
            out.append('')
            continue
        m = re.match(r'(\s*)//@ ?(.*)$', l)
        out.append(m.group(1) + m.group(2) if m else l)
    return out


def load_templates():
    p = os.path.join(VERIF, 'contracts', 'templates.json')
    if os.path.exists(p):
        return json.load(open(p))
    return {}


def load_rules():
    return open(os.path.join(VERIF, 'contracts', 'rules.txt')).read()


def load_type_map():
    out = []
    for l in open(os.path.join(VERIF, 'contracts', 'typemap.txt')).read().split('\n'):
        l = l.strip()
        if not l or l.startswith('#'):
            continue
        a, b = l.split('=>')
        out.append([a.strip(), b.strip()])
    return out
