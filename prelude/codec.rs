// prelude/codec.rs — C03: the canonical decimal text of a number (what the integer writer emits; itoap is
// assumed to produce exactly this, see wints::WInt) and its inverse relation to `dec`/`digits_len` (what the scanners read).
// Everything here is verified by Verus except the two `max_len` bodies (itoap's MAX_LEN constants, trusted).

pub mod codec {
use vstd::prelude::*;
use crate::vp::*;
use crate::ints::*;
use crate::decimal::*;
use crate::wints::*;

pub open spec fn digit_byte(d: nat) -> u8 { (0x30 + d) as u8 }

// canonical decimal text: no sign, no leading zero unless the number is 0
pub open spec fn canon_dec(n: nat) -> Seq<u8>
    decreases n
{
    if n < 10 { seq![digit_byte(n)] } else { canon_dec(n / 10).push(digit_byte(n % 10)) }
}

// canonical text of a signed number: `-` followed by the magnitude
pub open spec fn canon_int(v: int) -> Seq<u8> {
    if v < 0 { seq![0x2du8] + canon_dec((-v) as nat) } else { canon_dec(v as nat) }
}

pub proof fn lemma_canon_dec(n: nat)
    ensures
        1 <= canon_dec(n).len(),
        forall|i: int| 0 <= i < canon_dec(n).len() ==> is_digit(#[trigger] canon_dec(n)[i]),
        canon_dec(n)[0] != 0x30u8 || canon_dec(n).len() == 1,
        canon_dec(n)[0] == 0x30u8 ==> n == 0,
        dec(canon_dec(n), 0, canon_dec(n).len()) == n,
    decreases n
{
    let c = canon_dec(n);
    if n < 10 {
        assert(c.len() == 1 && c[0] == digit_byte(n));
        assert(dec(c, 0, 1) == dec(c, 0, 0) * 10 + (c[0] - 0x30) as nat);
        assert(dec(c, 0, 0) == 0);
    } else {
        let h = canon_dec(n / 10);
        lemma_canon_dec(n / 10);
        assert(c == h.push(digit_byte(n % 10)));
        assert(c.len() == h.len() + 1);
        assert forall|i: int| 0 <= i < c.len() implies is_digit(#[trigger] c[i]) by {
            if i < h.len() { assert(c[i] == h[i]); assert(is_digit(h[i])); }
        }
        assert(c[0] == h[0]);
        lemma_dec_same(c, h, 0, h.len());
        assert(dec(c, 0, c.len()) == dec(c, 0, h.len()) * 10 + (c[h.len() as int] - 0x30) as nat);
    }
}

// a canonical text of length k denotes a number below 10^k (so: at most 20 bytes for a 64-bit number)
pub proof fn lemma_canon_len(n: nat, k: nat)
    requires n < pow10(k), k >= 1
    ensures canon_dec(n).len() <= k
    decreases k
{
    if n >= 10 {
        assert(pow10(1) == 10) by { reveal_with_fuel(pow10, 2); }
        if k == 1 { assert(false); }
        assert(pow10(k) == 10 * pow10((k - 1) as nat));
        lemma_canon_len(n / 10, (k - 1) as nat);
    }
}

pub proof fn lemma_pow10_20()
    ensures pow10(20) == 100_000_000_000_000_000_000nat, pow10(19) == 10_000_000_000_000_000_000nat
{
    reveal_with_fuel(pow10, 21);
}

// reading back: a stream that carries canon_dec(n) at p followed by a non-digit (or the end) scans as n
pub proof fn lemma_canon_at(s: Seq<u8>, p: int, n: nat)
    requires
        0 <= p, p + canon_dec(n).len() <= s.len(),
        s.subrange(p, p + canon_dec(n).len()) == canon_dec(n),
        p + canon_dec(n).len() == s.len() || !is_digit(s[p + canon_dec(n).len()]),
    ensures
        digits_len(s, p) == canon_dec(n).len(),
        dec(s, p, canon_dec(n).len()) == n,
        s[p] != 0x30u8 || canon_dec(n).len() == 1,
{
    let c = canon_dec(n); let k = c.len();
    lemma_canon_dec(n);
    assert forall|i: int| p <= i < p + k implies 0 <= i < s.len() && is_digit(#[trigger] s[i]) by {
        assert(s[i] == s.subrange(p, p + k)[i - p]);
        assert(is_digit(c[i - p]));
    }
    lemma_digits_len_step(s, p, k);
    assert(digits_len(s, p + k) == 0);
    assert forall|i: int| 0 <= i < k implies c[i] == s[p + i] by { assert(s[p + i] == s.subrange(p, p + k)[i]); }
    lemma_dec_window(s, p, c, k);
    assert(s[p] == s.subrange(p, p + k)[0]);
}

// ---- what the integer writer appends for the types the format writers use (itoap assumed to be canonical)
impl WInt for usize {
    open spec fn max_len_spec() -> nat { 20 }
    open spec fn canon(self) -> Seq<u8> { canon_dec(self as nat) }
    proof fn lemma_canon_len(self) { lemma_canon_dec(self as nat); lemma_pow10_20(); lemma_canon_len(self as nat, 20); }
    #[verifier::external_body]
    fn max_len() -> (r: usize) { 20 }
}
impl WInt for u64 {
    open spec fn max_len_spec() -> nat { 20 }
    open spec fn canon(self) -> Seq<u8> { canon_dec(self as nat) }
    proof fn lemma_canon_len(self) { lemma_canon_dec(self as nat); lemma_pow10_20(); lemma_canon_len(self as nat, 20); }
    #[verifier::external_body]
    fn max_len() -> (r: usize) { 20 }
}
impl WInt for isize {
    open spec fn max_len_spec() -> nat { 20 }
    open spec fn canon(self) -> Seq<u8> { canon_int(self as int) }
    proof fn lemma_canon_len(self) {
        let m: nat = if self < 0 { (-(self as int)) as nat } else { self as nat };
        lemma_canon_dec(m); lemma_pow10_20(); lemma_canon_len(m, 19);
    }
    #[verifier::external_body]
    fn max_len() -> (r: usize) { 20 }
}

} // mod codec
