// prelude/base.rs — trusted models used by every unit (DESIGN.md section 4 and 7).
// Everything marked external_body / assume_specification here is an ASSUMPTION and is listed in the
// evidence (the driver scans for these keywords).

global size_of usize == 8;

pub mod vp {
use vstd::prelude::*;

// ------------------------------------------------------------------ stated bounds on machine arithmetic
pub const MEM: usize = 0x0100_0000_0000_0000;          // no Vec of 2^56 bytes exists
pub const CHUNK_MAX: usize = 0x1000_0000;              // chunk sizes up to 2^28
pub const STREAM_MAX: usize = 0x1000_0000_0000_0000;   // streams shorter than 2^60 bytes

// ------------------------------------------------------------------ std::io model (R11)
pub mod io {
    use vstd::prelude::*;

    // the stable std::io::ErrorKind variants a guard may name; only equality is observable
    #[derive(Clone, Copy)]
    pub enum ErrorKind { NotFound, PermissionDenied, ConnectionRefused, ConnectionReset, ConnectionAborted, NotConnected, AddrInUse, AddrNotAvailable, BrokenPipe, AlreadyExists, WouldBlock, InvalidInput, InvalidData, TimedOut, WriteZero, Interrupted, Unsupported, UnexpectedEof, OutOfMemory, Other }
    pub open spec fn kind_idx(k: ErrorKind) -> int { match k { ErrorKind::NotFound => 0, ErrorKind::PermissionDenied => 1, ErrorKind::ConnectionRefused => 2, ErrorKind::ConnectionReset => 3, ErrorKind::ConnectionAborted => 4, ErrorKind::NotConnected => 5, ErrorKind::AddrInUse => 6, ErrorKind::AddrNotAvailable => 7, ErrorKind::BrokenPipe => 8, ErrorKind::AlreadyExists => 9, ErrorKind::WouldBlock => 10, ErrorKind::InvalidInput => 11, ErrorKind::InvalidData => 12, ErrorKind::TimedOut => 13, ErrorKind::WriteZero => 14, ErrorKind::Interrupted => 15, ErrorKind::Unsupported => 16, ErrorKind::UnexpectedEof => 17, ErrorKind::OutOfMemory => 18, ErrorKind::Other => 19 } }
    impl vstd::std_specs::cmp::PartialEqSpecImpl for ErrorKind {
        open spec fn obeys_eq_spec() -> bool { true }
        open spec fn eq_spec(&self, o: &ErrorKind) -> bool { *self == *o }
    }
    impl PartialEq for ErrorKind {
        fn eq(&self, o: &ErrorKind) -> (r: bool) {
            match (self, o) { (ErrorKind::NotFound, ErrorKind::NotFound) => true, (ErrorKind::PermissionDenied, ErrorKind::PermissionDenied) => true, (ErrorKind::ConnectionRefused, ErrorKind::ConnectionRefused) => true, (ErrorKind::ConnectionReset, ErrorKind::ConnectionReset) => true, (ErrorKind::ConnectionAborted, ErrorKind::ConnectionAborted) => true, (ErrorKind::NotConnected, ErrorKind::NotConnected) => true, (ErrorKind::AddrInUse, ErrorKind::AddrInUse) => true, (ErrorKind::AddrNotAvailable, ErrorKind::AddrNotAvailable) => true, (ErrorKind::BrokenPipe, ErrorKind::BrokenPipe) => true, (ErrorKind::AlreadyExists, ErrorKind::AlreadyExists) => true, (ErrorKind::WouldBlock, ErrorKind::WouldBlock) => true, (ErrorKind::InvalidInput, ErrorKind::InvalidInput) => true, (ErrorKind::InvalidData, ErrorKind::InvalidData) => true, (ErrorKind::TimedOut, ErrorKind::TimedOut) => true, (ErrorKind::WriteZero, ErrorKind::WriteZero) => true, (ErrorKind::Interrupted, ErrorKind::Interrupted) => true, (ErrorKind::Unsupported, ErrorKind::Unsupported) => true, (ErrorKind::UnexpectedEof, ErrorKind::UnexpectedEof) => true, (ErrorKind::OutOfMemory, ErrorKind::OutOfMemory) => true, (ErrorKind::Other, ErrorKind::Other) => true, _ => false }
        }
    }

    // An opaque I/O error: only its kind is observable.
    #[verifier::external_body]
    pub struct Error { inner: std::io::Error }

    impl Error {
        pub uninterp spec fn kind_spec(&self) -> ErrorKind;

        #[verifier::external_body]
        pub fn kind(&self) -> (r: ErrorKind)
            ensures r == self.kind_spec()
        { unimplemented!() }
    }

    pub type Result<T> = core::result::Result<T, Error>;
}

// ------------------------------------------------------------------ the source model (DESIGN 4.1)
pub struct SrcView {
    pub full: Seq<u8>,      // every byte this source will ever deliver (prophecy, fixed)
    pub fails: bool,        // after `full`: true = a non-Interrupted error, false = Ok(0)
    pub delivered: nat,     // bytes handed out so far
    pub ended: bool,        // a terminal result (Ok(0) or a non-Interrupted Err) has been returned
    pub calls: nat,         // read() calls so far
    pub ok_reads: nat,      // read() calls that returned Ok(n), n > 0
    pub last_from: nat,     // value of `delivered` before the most recent successful read
    pub intr: nat,          // budget of consecutive Interrupted results (termination assumption)
}

#[verifier::external_body]
pub struct Source { inner: Box<dyn std::io::Read> }

impl Source {
    pub uninterp spec fn view(&self) -> SrcView;
}

pub open spec fn src_wf(s: SrcView) -> bool {
    s.delivered <= s.full.len() && s.full.len() < STREAM_MAX && s.last_from <= s.delivered
}

// The single `self.read.read(&mut self.buf[lo..hi])` call (rule R11a). This contract IS the
// std::io::Read protocol for a source with fixed content; nothing is said about how many bytes
// arrive per call. For n > hi - lo (a misbehaving Read) NOTHING is promised.
#[verifier::external_body]
pub fn read_into(src: &mut Source, buf: &mut Vec<u8>, lo: usize, hi: usize) -> (r: io::Result<usize>)
    requires
        lo <= hi <= old(buf)@.len(),
        src_wf(old(src)@),
        !old(src)@.ended,
    ensures
        src_wf(final(src)@),
        final(src)@.full == old(src)@.full,
        final(src)@.fails == old(src)@.fails,
        final(src)@.calls == old(src)@.calls + 1,
        final(buf)@.len() == old(buf)@.len(),
        final(buf)@.subrange(0, lo as int) == old(buf)@.subrange(0, lo as int),
        match r {
            Ok(n) => (n <= hi - lo ==> {
                &&& final(src)@.delivered == old(src)@.delivered + n
                &&& final(buf)@.subrange(lo as int, lo + n) == old(src)@.full.subrange(old(src)@.delivered as int, old(src)@.delivered + n)
                &&& (n == 0 && hi > lo ==> old(src)@.delivered == old(src)@.full.len() && !old(src)@.fails)
                &&& final(src)@.ended == (n == 0)
                &&& final(src)@.last_from == (if n == 0 { old(src)@.last_from } else { old(src)@.delivered })
                &&& final(src)@.ok_reads == old(src)@.ok_reads + (if n == 0 { 0nat } else { 1nat })
            }),
            Err(e) => if e.kind_spec() == io::ErrorKind::Interrupted {
                &&& final(src)@.delivered == old(src)@.delivered
                &&& !final(src)@.ended
                &&& final(src)@.intr < old(src)@.intr
                &&& final(src)@.last_from == old(src)@.last_from
                &&& final(src)@.ok_reads == old(src)@.ok_reads
            } else {
                &&& final(src)@.delivered == old(src)@.delivered
                &&& old(src)@.delivered == old(src)@.full.len()
                &&& old(src)@.fails
                &&& final(src)@.ended
                &&& final(src)@.last_from == old(src)@.last_from
                &&& final(src)@.ok_reads == old(src)@.ok_reads
            },
        },
{ unimplemented!() }

// ------------------------------------------------------------------ unwinding points (R8, DESIGN 4.4)
#[verifier::external_body]
pub fn unwind_point() -> !
{ panic!() }

// Error message text is not modelled (R8).
#[verifier::external_body]
pub fn opaque_string() -> String
{ String::new() }

// `String::push_str` on a message that is being assembled (R8: message text is not modelled)
#[verifier::external_body]
pub fn string_push_str(s: &mut String, t: &str)
{ s.push_str(t) }

// `vec![x]` (one element)
pub fn vec_one<T>(x: T) -> (r: Vec<T>) ensures r@ == seq![x] { let mut v = Vec::new(); v.push(x); v }
// `Option<Option<T>>::flatten` (std)
pub fn opt_flatten<T>(x: Option<Option<T>>) -> (r: Option<T>)
    ensures r == (match x { Some(Some(v)) => Some(v), _ => None })
{ match x { Some(Some(v)) => Some(v), _ => None } }

// ------------------------------------------------------------------ allocation from declared counts (R23, C05)
// C05: "the memory it allocates is bounded by a constant multiple of the number of input bytes it consumed, regardless of the counts
// the input merely declares". A pre-allocation that is sized by a number read from the input (not by data already held) must therefore
// stay below a constant; ALLOC_CAP elements is that constant here (generous: 2^20 elements). `Vec::reserve`/`with_capacity` also
// panic ("capacity overflow") or abort the process when the request cannot be met, which the precondition excludes as well.
pub spec const ALLOC_CAP: usize = 0x10_0000;
#[verifier::external_body]
pub fn vec_reserve<T>(v: &mut Vec<T>, additional: usize)
    requires additional <= ALLOC_CAP
    ensures final(v)@ == old(v)@
{ v.reserve(additional) }
#[verifier::external_body]
pub fn vec_with_cap<T>(n: usize) -> (v: Vec<T>)
    requires n <= ALLOC_CAP
    ensures v@.len() == 0
{ Vec::with_capacity(n) }
// `(0..n).map(|_| vec![]).collect()`: n empty vectors, sized by a declared count
#[verifier::external_body]
pub fn vec_of_empty_vecs<T>(n: usize) -> (v: Vec<Vec<T>>)
    requires n <= ALLOC_CAP
    ensures v@.len() == n, forall|i: int| 0 <= i < n ==> (#[trigger] v@[i])@.len() == 0
{ (0..n).map(|_| vec![]).collect() }
// `xs.iter().map(|_| vec![]).collect()`: as many empty vectors as an existing vector has elements (bounded by data already held)
#[verifier::external_body]
pub fn vec_of_empty_vecs_like<S, T>(xs: &Vec<S>) -> (v: Vec<Vec<T>>)
    ensures v@.len() == xs@.len(), forall|i: int| 0 <= i < xs@.len() ==> (#[trigger] v@[i])@.len() == 0
{ xs.iter().map(|_| vec![]).collect() }
// `v[i].push(x)` on a Vec<Vec<T>> (IndexMut is outside Verus)
#[verifier::external_body]
pub fn vec2_push<T>(v: &mut Vec<Vec<T>>, i: usize, x: T)
    requires i < old(v)@.len()
    ensures final(v)@.len() == old(v)@.len(), final(v)@[i as int]@ == old(v)@[i as int]@.push(x),
        forall|j: int| 0 <= j < old(v)@.len() && j != i ==> #[trigger] final(v)@[j] == old(v)@[j]
{ v[i].push(x) }
// `usize::min` (Ord::min on integers)
pub fn usize_min(a: usize, b: usize) -> (r: usize) ensures r == (if a <= b { a } else { b }) { if a <= b { a } else { b } }
// `&String` used as `&str` (deref coercion)
#[verifier::external_body]
pub fn string_as_str(s: &String) -> (r: &str) ensures str_bytes(r) == string_bytes(s) { s.as_str() }
// `str::to_owned`
pub uninterp spec fn string_bytes(s: &String) -> Seq<u8>;
#[verifier::external_body]
pub fn str_to_owned(s: &str) -> (r: String) ensures string_bytes(&r) == str_bytes(s)
{ s.to_owned() }

// ------------------------------------------------------------------ UTF-8 (R3 for from_utf8_unchecked)
pub uninterp spec fn is_utf8(b: Seq<u8>) -> bool;
pub uninterp spec fn str_bytes(s: &str) -> Seq<u8>;

// length of the longest valid UTF-8 prefix cut at the first invalid sequence (what Utf8Error::valid_up_to reports)
pub uninterp spec fn utf8_up_to(b: Seq<u8>) -> int;
pub struct VUtf8Error { pub up_to: usize }
impl VUtf8Error {
    pub fn valid_up_to(&self) -> (r: usize) ensures r == self.up_to { self.up_to }
}

// UTF-8 facts used by the parsers (trusted axioms about the encoding): removing a trailing ASCII byte, and the empty string
#[verifier::external_body]
pub proof fn axiom_utf8_drop_ascii(b: Seq<u8>)
    requires is_utf8(b), b.len() > 0, b.last() < 0x80u8
    ensures is_utf8(b.drop_last())
{}
// `str::len` (byte length)
#[verifier::external_body]
pub fn str_byte_len(s: &str) -> (r: usize)
    ensures r == str_bytes(s).len()
{ s.len() }

// `str::as_bytes` (R3p): the bytes of a `str`; they are valid UTF-8 and fit a slice
#[verifier::external_body]
pub fn str_as_bytes(s: &str) -> (r: &[u8])
    ensures r@ == str_bytes(s), is_utf8(r@), r@.len() <= 0x7fff_ffff_ffff_ffff
{ s.as_bytes() }

// ASCII is UTF-8
#[verifier::external_body]
pub proof fn axiom_ascii_utf8(b: Seq<u8>)
    requires forall|i: int| 0 <= i < b.len() ==> b[i] < 0x80u8
    ensures is_utf8(b)
{}
#[verifier::external_body]
pub proof fn axiom_utf8_empty()
    ensures is_utf8(Seq::<u8>::empty())
{}

// std::str::from_utf8 (the error type is modelled by VUtf8Error: only valid_up_to() is observable)
#[verifier::external_body]
pub fn str_from_utf8(bytes: &[u8]) -> (r: Result<&str, VUtf8Error>)
    ensures
        match r {
            Ok(s) => is_utf8(bytes@) && str_bytes(s) == bytes@ && (bytes@.len() == 0 ==> s@ == Seq::<char>::empty()) && (bytes@.len() > 0 ==> s@.len() > 0),
            Err(e) => !is_utf8(bytes@) && e.up_to < bytes@.len() && is_utf8(bytes@.subrange(0, e.up_to as int)) && e.up_to == utf8_up_to(bytes@),
        },
{ unimplemented!() }

// std::str::from_utf8_unchecked: the safety condition is that the bytes are valid UTF-8
#[verifier::external_body]
pub fn str_from_utf8_unchecked(bytes: &[u8]) -> (r: &str)
    requires is_utf8(bytes@),
    ensures str_bytes(r) == bytes@,
{ unsafe { std::str::from_utf8_unchecked(bytes) } }

// `Cow<'a, str>` (symbol names): opaque, only the bytes are observable (R11)
#[verifier::external_body]
pub struct CowStr { inner: std::borrow::Cow<'static, str> }
impl CowStr {
    pub uninterp spec fn bytes(&self) -> Seq<u8>;
    // `Cow<str>` derefs to `str`: `name.as_bytes()`
    #[verifier::external_body]
    pub fn as_bytes(&self) -> (r: &[u8]) ensures r@ == self.bytes(), is_utf8(r@), r@.len() <= 0x7fff_ffff_ffff_ffff { self.inner.as_bytes() }
}
impl Clone for CowStr {
    #[verifier::external_body]
    fn clone(&self) -> (r: Self) ensures r.bytes() == self.bytes() { unimplemented!() }
}
#[verifier::external_body]
pub fn cow_borrowed(s: &str) -> (r: CowStr) ensures r.bytes() == str_bytes(s)
{ unimplemented!() }

// `std::num::NonZeroU64` (BTOR2 node ids): a u64 that is not zero (R11)
#[derive(Clone, Copy)]
pub struct Nz64 { pub v: u64 }
impl Nz64 {
    pub fn new(n: u64) -> (r: Option<Nz64>)
        ensures (r is Some) == (n != 0), r matches Some(x) ==> x.v == n
    { if n != 0 { Some(Nz64 { v: n }) } else { None } }
    pub fn get(self) -> (r: u64) ensures r == self.v { self.v }
}

// ------------------------------------------------------------------ iterator adapters (R6): verified helpers
pub open spec fn count_of(s: Seq<u8>, c: u8) -> nat
    decreases s.len()
{
    if s.len() == 0 { 0 } else { count_of(s.drop_last(), c) + (if s.last() == c { 1nat } else { 0nat }) }
}

// `s.iter().rev().position(|&b| b == c)`: distance of the last occurrence of c from the end
pub fn rposition_eq(s: &[u8], c: u8) -> (r: Option<usize>)
    ensures
        match r {
            Some(k) => k < s@.len() && s@[s@.len() - 1 - k] == c && (forall|j: int| s@.len() - k <= j < s@.len() ==> s@[j] != c),
            None => forall|j: int| 0 <= j < s@.len() ==> s@[j] != c,
        },
{
    let mut i = s.len();
    while i > 0
        invariant i <= s@.len(), forall|j: int| i <= j < s@.len() ==> s@[j] != c,
        decreases i
    {
        i -= 1;
        if s[i] == c { return Some(s.len() - 1 - i); }
    }
    None
}

// `s.iter().filter(|&&b| b == c).count()`
pub fn count_eq(s: &[u8], c: u8) -> (r: usize)
    ensures r == count_of(s@, c), r <= s@.len(),
{
    let mut n: usize = 0;
    let mut i: usize = 0;
    while i < s.len()
        invariant i <= s@.len(), n == count_of(s@.subrange(0, i as int), c), n <= i,
        decreases s@.len() - i
    {
        proof { assert(s@.subrange(0, i + 1).drop_last() =~= s@.subrange(0, i as int)); }
        if s[i] == c { n += 1; }
        i += 1;
    }
    proof { assert(s@.subrange(0, s@.len() as int) =~= s@); }
    n
}

// ------------------------------------------------------------------ Vec shims (R23)
#[verifier::external_body]
pub fn copy_within_vec(v: &mut Vec<u8>, lo: usize, hi: usize, dest: usize)
    requires
        lo <= hi <= old(v)@.len(),
        dest + (hi - lo) <= old(v)@.len(),
    ensures
        final(v)@.len() == old(v)@.len(),
        final(v)@.subrange(dest as int, dest + (hi - lo)) == old(v)@.subrange(lo as int, hi as int),
{ v.copy_within(lo..hi, dest) }

// `v.resize(n, 0)`: returns only if an allocation of n bytes exists, hence n <= MEM.
#[verifier::external_body]
pub fn vec_resize_zeroed(v: &mut Vec<u8>, n: usize)
    ensures
        final(v)@.len() == n,
        n <= MEM,
        forall|i: int| 0 <= i < old(v)@.len() && i < n ==> final(v)@[i] == old(v)@[i],
{ v.resize(n, 0) }

pub assume_specification<T, A: std::alloc::Allocator> [std::vec::Vec::<T, A>::shrink_to_fit] (v: &mut std::vec::Vec<T, A>)
    ensures final(v)@ == old(v)@;

pub assume_specification [usize::overflowing_sub] (x: usize, y: usize) -> (r: (usize, bool))
    ensures
        r.1 == (x < y),
        r.0 as int == (if x >= y { x as int - y as int } else { x as int - y as int + 0x1_0000_0000_0000_0000 });

// std: `checked_shl` only rejects a shift amount >= the bit width; bits shifted out are lost silently
// <[T]>::swap (std): exchanges two elements, panics when an index is out of bounds (precondition)
pub assume_specification<T> [<[T]>::swap] (s: &mut [T], a: usize, b: usize)
    requires a < old(s)@.len(), b < old(s)@.len()
    ensures final(s)@ == old(s)@.update(a as int, old(s)@[b as int]).update(b as int, old(s)@[a as int]);

// <[T]>::split_last (std): the last element and the slice before it; None for the empty slice
pub assume_specification<T> [<[T]>::split_last] (s: &[T]) -> (r: Option<(&T, &[T])>)
    ensures
        s@.len() == 0 ==> r is None,
        s@.len() > 0 ==> (r matches Some(p) && *p.0 == s@[s@.len() - 1] && p.1@ == s@.subrange(0, s@.len() - 1));

pub assume_specification [usize::checked_shl] (x: usize, rhs: u32) -> (r: Option<usize>)
    ensures r == (if rhs < 64 { Some(x << rhs) } else { None::<usize> });

// ------------------------------------------------------------------ raw-pointer shims (R3)
// A `*const u8` obtained from the reader designates a window of bytes; the window is ghost state
// of the pointer value. Loads through it require the window to cover the load.
pub uninterp spec fn ptr_window(p: *const u8) -> Seq<u8>;

#[verifier::external_body]
pub fn vec_ptr_at(v: &Vec<u8>, off: usize) -> (p: *const u8)
    requires off <= v@.len(),           // safety condition of `as_ptr().add(off)`
    ensures ptr_window(p) == v@.subrange(off as int, v@.len() as int),
{ unsafe { v.as_ptr().add(off) } }

} // mod vp
