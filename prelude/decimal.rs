// prelude/decimal.rs — spec functions of C13/C06 (taken from the property statement) and their lemmas.
// Everything here is verified by Verus except `load8_le` (R3d shim, trusted ensures).

pub mod decimal {
use vstd::prelude::*;
use crate::vp::*;
use crate::ints::*;

pub open spec fn is_digit(b: u8) -> bool { 0x30 <= b <= 0x39 }

// length of the longest run of ASCII digits starting at `at`
pub open spec fn digits_len(s: Seq<u8>, at: int) -> nat
    decreases s.len() - at
{
    if 0 <= at < s.len() && is_digit(s[at]) { 1 + digits_len(s, at + 1) } else { 0 }
}

// exact value of the n digits starting at `at` (arbitrary precision)
pub open spec fn dec(s: Seq<u8>, at: int, n: nat) -> nat
    decreases n
{
    if n == 0 { 0 } else { dec(s, at, (n - 1) as nat) * 10 + (s[at + n - 1] - 0x30) as nat }
}

pub open spec fn pow10(n: nat) -> nat
    decreases n
{
    if n == 0 { 1 } else { 10 * pow10((n - 1) as nat) }
}

// "returns the exact value whenever it is representable and reports overflow exactly when it is not"
pub open spec fn res_ok<I: ScanInt>(r: Option<I>, x: int) -> bool {
    &&& (r is Some <==> I::min_v() <= x <= I::max_v())
    &&& (r is Some ==> r.unwrap().val() == x)
}

pub proof fn lemma_digits_len_bound(s: Seq<u8>, at: int)
    requires 0 <= at
    ensures at + digits_len(s, at) <= s.len() || digits_len(s, at) == 0,
        forall|i: int| at <= i < at + digits_len(s, at) ==> is_digit(#[trigger] s[i]),
        !(0 <= at + digits_len(s, at) < s.len() && is_digit(s[at + digits_len(s, at)])),
    decreases s.len() - at
{
    if at < s.len() && is_digit(s[at]) { lemma_digits_len_bound(s, at + 1); }
}

pub proof fn lemma_digits_len_step(s: Seq<u8>, at: int, k: nat)
    requires 0 <= at, forall|i: int| at <= i < at + k ==> 0 <= i < s.len() && is_digit(#[trigger] s[i])
    ensures digits_len(s, at) == k + digits_len(s, at + k)
    decreases k
{
    if k > 0 {
        assert(is_digit(s[at]));
        assert(0 <= at < s.len());
        lemma_digits_len_step(s, at + 1, (k - 1) as nat);
    }
}

pub proof fn lemma_dec_mono(s: Seq<u8>, at: int, n: nat)
    ensures dec(s, at, n) <= dec(s, at, n + 1), dec(s, at, n + 1) == dec(s, at, n) * 10 + (s[at + n] - 0x30) as nat
{
}

pub proof fn lemma_pow10_pos(n: nat)
    ensures pow10(n) >= 1
    decreases n
{
    if n > 0 { lemma_pow10_pos((n - 1) as nat); }
}

// dec of a + b digits = dec of the first a digits * 10^b + dec of the last b digits
pub proof fn lemma_dec_split(s: Seq<u8>, at: int, a: nat, b: nat)
    ensures dec(s, at, a + b) == dec(s, at, a) * pow10(b) + dec(s, at + a, b)
    decreases b
{
    if b > 0 {
        lemma_dec_split(s, at, a, (b - 1) as nat);
        let x = dec(s, at, a) as int; let p = pow10((b - 1) as nat) as int;
        assert(x * (10 * p) == (x * p) * 10) by (nonlinear_arith);
    } else {
        assert(dec(s, at, a) * 1 == dec(s, at, a));
    }
}

// accumulation step shared by all scanner loops: X' = X * 10 + d
pub proof fn lemma_acc_step(s: Seq<u8>, a: int, k: nat, v0: int)
    ensures v0 * pow10(k + 1) + dec(s, a, k + 1) == (v0 * pow10(k) + dec(s, a, k)) * 10 + (s[a + k] - 0x30) as nat,
            v0 * pow10(k + 1) - dec(s, a, k + 1) == (v0 * pow10(k) - dec(s, a, k)) * 10 - (s[a + k] - 0x30) as nat,
{
    let p = pow10(k) as int;
    assert(v0 * (10 * p) == (v0 * p) * 10) by (nonlinear_arith);
}

pub proof fn lemma_dec_lt_pow10(s: Seq<u8>, at: int, n: nat)
    requires forall|i: int| at <= i < at + n ==> is_digit(#[trigger] s[i])
    ensures dec(s, at, n) < pow10(n)
    decreases n
{
    if n > 0 { lemma_dec_lt_pow10(s, at, (n - 1) as nat); }
}

pub proof fn lemma_dec_window(s: Seq<u8>, p: int, b: Seq<u8>, n: nat)
    requires 0 <= p, n <= b.len(), p + b.len() <= s.len(), forall|i: int| 0 <= i < b.len() ==> b[i] == s[p + i]
    ensures dec(s, p, n) == dec(b, 0, n)
    decreases n
{
    if n > 0 { lemma_dec_window(s, p, b, (n - 1) as nat); }
}

// dec only depends on the bytes it covers
pub proof fn lemma_dec_same(s: Seq<u8>, t: Seq<u8>, at: int, n: nat)
    requires 0 <= at, at + n <= s.len(), at + n <= t.len(), forall|i: int| at <= i < at + n ==> s[i] == t[i]
    ensures dec(s, at, n) == dec(t, at, n)
    decreases n
{
    if n > 0 { lemma_dec_same(s, t, at, (n - 1) as nat); }
}

pub proof fn lemma_mul_ge(a: int, b: int)
    requires a >= 0, b >= 1
    ensures a * b >= a
{
    assert(a * b >= a) by (nonlinear_arith) requires a >= 0, b >= 1;
}

// ------------------------------------------------------------------ little-endian words (R3d)
pub open spec fn le_bytes(w: u64) -> Seq<u8> {
    seq![(w & 0xff) as u8, ((w >> 8) & 0xff) as u8, ((w >> 16) & 0xff) as u8, ((w >> 24) & 0xff) as u8,
         ((w >> 32) & 0xff) as u8, ((w >> 40) & 0xff) as u8, ((w >> 48) & 0xff) as u8, ((w >> 56) & 0xff) as u8]
}

// `u64::from_le_bytes(*(p.add(o) as *const [u8; 8]))`: the safety condition is that the 8 bytes lie inside
// the window the pointer was derived for.
#[verifier::external_body]
pub fn load8_le(p: *const u8, o: usize) -> (r: u64)
    requires o + 8 <= ptr_window(p).len(),
    ensures
        le_bytes(r) == ptr_window(p).subrange(o as int, o + 8),
        forall|i: int| 0 <= i < 8 ==> #[trigger] le_bytes(r)[i] == ptr_window(p)[o + i],
{ unsafe { u64::from_le_bytes(*(p.add(o) as *const [u8; 8])) } }

pub proof fn lemma_le_bytes_shift(w: u64)
    ensures
        le_bytes(w)[0] == (w & 0xff) as u8,
        (w & 0xff == 0x2d) <==> le_bytes(w)[0] == 0x2du8,
        le_bytes(w >> 8) == le_bytes(w).subrange(1, 8).push(0u8),
{
    assert((w & 0xff) == 0x2d <==> ((w & 0xff) as u8) == 0x2du8) by (bit_vector);
    assert(((w >> 8) & 0xff) as u8 == ((w >> 8) & 0xff) as u8);
    assert(((w >> 8) >> 8) & 0xff == (w >> 16) & 0xff) by (bit_vector);
    assert(((w >> 8) >> 16) & 0xff == (w >> 24) & 0xff) by (bit_vector);
    assert(((w >> 8) >> 24) & 0xff == (w >> 32) & 0xff) by (bit_vector);
    assert(((w >> 8) >> 32) & 0xff == (w >> 40) & 0xff) by (bit_vector);
    assert(((w >> 8) >> 40) & 0xff == (w >> 48) & 0xff) by (bit_vector);
    assert(((w >> 8) >> 48) & 0xff == (w >> 56) & 0xff) by (bit_vector);
    assert(((w >> 8) >> 56) & 0xff == 0) by (bit_vector);
    assert(le_bytes(w >> 8) =~= le_bytes(w).subrange(1, 8).push(0u8));
}

// ------------------------------------------------------------------ lowercase keyword kernel (btor2)
pub open spec fn is_lower(b: u8) -> bool { 0x61 <= b <= 0x7a }
// number of leading lowercase bytes among the first `avail` bytes
pub open spec fn lower_len_upto(s: Seq<u8>, avail: nat) -> nat
    decreases avail
{
    if avail == 0 { 0 } else {
        let r = lower_len_upto(s, (avail - 1) as nat);
        if r == avail - 1 && avail - 1 < s.len() && is_lower(s[avail - 1]) { avail } else { r }
    }
}
// the first n bytes of s, zero padded to 8 bytes
pub open spec fn lower_padded(s: Seq<u8>, n: nat) -> Seq<u8> {
    Seq::new(8, |i: int| if i < n && i < s.len() { s[i] } else { 0u8 })
}
pub proof fn lemma_lower_len_upto(s: Seq<u8>, avail: nat, k: nat)
    requires k <= avail, avail <= s.len(), forall|i: int| 0 <= i < k ==> is_lower(#[trigger] s[i]), k == avail || !is_lower(s[k as int])
    ensures lower_len_upto(s, avail) == k
    decreases avail
{
    if avail > 0 {
        if k == avail {
            assert(is_lower(s[avail - 1]));
            lemma_lower_len_upto(s, (avail - 1) as nat, (avail - 1) as nat);
        } else {
            lemma_lower_len_upto(s, (avail - 1) as nat, k);
        }
    }
}
#[verifier::external_body]
pub proof fn lemma_le_word(out: [u8; 8])
    ensures le_bytes(u64_from_le(out)) == out@
{}
// u64::from_le_bytes (trusted: definition of little-endian assembly)
pub uninterp spec fn u64_from_le(b: [u8; 8]) -> u64;
#[verifier::external_body]
pub fn u64_from_le_shim(b: [u8; 8]) -> (r: u64)
    ensures r == u64_from_le(b)
{ u64::from_le_bytes(b) }

//@include lower_ref.rs

// ------------------------------------------------------------------ the kernel's reference (shared text with the Kani harness)
pub open spec fn min8(n: nat) -> nat { if n < 8 { n } else { 8 } }

//@include swar_ref.rs

} // mod decimal
