// prelude/sink.rs — the sink model (DESIGN 4.2) and Vec capacity shims (R23) for the writer units.

pub mod sinkm {
use vstd::prelude::*;
use crate::vp::*;

pub struct SinkView { pub accepted: Seq<u8>, pub calls: nat }

#[verifier::external_body]
pub struct Sink { inner: Box<dyn std::io::Write> }
impl Sink { pub uninterp spec fn view(&self) -> SinkView; }

// std::io::Write::write_all (assumed protocol): on Ok all of `data` was accepted, on Err some prefix of it.
// Short writes and Interrupted are handled inside std's write_all.
#[verifier::external_body]
pub fn sink_write_all(sink: &mut Sink, data: &[u8]) -> (r: io::Result<()>)
    ensures
        final(sink)@.calls == old(sink)@.calls + 1,
        match r {
            Ok(()) => final(sink)@.accepted == old(sink)@.accepted + data@,
            Err(_) => exists|k: int| 0 <= k <= data@.len() && final(sink)@.accepted == old(sink)@.accepted + data@.subrange(0, k),
        },
{ unimplemented!() }

// capacity of a Vec<u8>: ghost attribute of the vector value; `clear`/`extend within capacity` keep it (std documents this)
pub uninterp spec fn spec_cap(v: Vec<u8>) -> nat;

#[verifier::external_body]
pub fn vec_capacity(v: &Vec<u8>) -> (r: usize)
    ensures r == spec_cap(*v), r >= v@.len(), r <= 0x7fff_ffff_ffff_ffff
{ v.capacity() }

#[verifier::external_body]
pub fn vec_with_capacity(n: usize) -> (v: Vec<u8>)
    ensures v@.len() == 0, spec_cap(v) >= n, spec_cap(v) <= 0x7fff_ffff_ffff_ffff
{ Vec::with_capacity(n) }

// `extend_from_slice`: never reallocates when the data fits
#[verifier::external_body]
pub fn vec_extend(v: &mut Vec<u8>, s: &[u8])
    ensures
        final(v)@ == old(v)@ + s@,
        old(v)@.len() + s@.len() <= spec_cap(*old(v)) ==> spec_cap(*final(v)) == spec_cap(*old(v)),
        final(v)@.len() <= spec_cap(*final(v)) <= 0x7fff_ffff_ffff_ffff,
{ v.extend_from_slice(s) }

#[verifier::external_body]
pub fn vec_clear(v: &mut Vec<u8>)
    ensures final(v)@.len() == 0, spec_cap(*final(v)) == spec_cap(*old(v)),
{ v.clear() }

// R3e: `v.as_mut_ptr().add(old_len).copy_from_nonoverlapping(s.as_ptr(), s.len()); v.set_len(new_len)`
// The requires clause is the safety condition of the two unsafe operations.
#[verifier::external_body]
pub fn vec_append_raw(v: &mut Vec<u8>, old_len: usize, s: &[u8], new_len: usize)
    requires
        old_len == old(v)@.len(),
        new_len == old_len + s@.len(),
        new_len <= spec_cap(*old(v)),
    ensures
        final(v)@ == old(v)@ + s@,
        spec_cap(*final(v)) == spec_cap(*old(v)),
{ v.extend_from_slice(s) }

// R3f: spare-capacity pointer of a Vec<u8>: the pointer value remembers how many spare bytes it may be used for
pub uninterp spec fn mut_ptr_spare(p: *mut u8) -> nat;
pub uninterp spec fn mut_ptr_null(p: *mut u8) -> bool;

#[verifier::external_body]
pub fn vec_mut_ptr_at(v: &mut Vec<u8>, off: usize) -> (p: *mut u8)
    requires off <= spec_cap(*old(v)),           // safety condition of `as_mut_ptr().add(off)`
    ensures *final(v) == *old(v), !mut_ptr_null(p), mut_ptr_spare(p) == spec_cap(*old(v)) - off, crate::wints::mut_ptr_at(p) == (old(v)@, off as int),
{ unsafe { v.as_mut_ptr().add(off) } }

#[verifier::external_body]
pub fn null_mut_u8() -> (p: *mut u8)
    ensures mut_ptr_null(p)
{ std::ptr::null_mut() }

#[verifier::external_body]
pub fn ptr_is_null(p: *mut u8) -> (r: bool)
    ensures r == mut_ptr_null(p)
{ p.is_null() }

// R3j: `v.set_len(n)` (in advance_unchecked): safety condition n <= capacity; the new bytes are whatever the caller
// placed there (unspecified here; see staged_of / axiom_staged).
#[verifier::external_body]
pub fn vec_set_len_raw(v: &mut Vec<u8>, n: usize)
    requires old(v)@.len() <= n <= spec_cap(*old(v)),
    ensures
        final(v)@.len() == n,
        final(v)@.subrange(0, old(v)@.len() as int) == old(v)@,
        spec_cap(*final(v)) == spec_cap(*old(v)),
{ unsafe { v.set_len(n) } }

} // mod sinkm

pub mod wints {
use vstd::prelude::*;
use crate::vp::*;
use crate::sinkm::*;

// Model of `flussab::write::text::Integer` (= itoap::Integer, sealed, 12 primitive types) (R7).
pub trait WInt: Sized + Copy {
    spec fn max_len_spec() -> nat;
    // canonical decimal text of the value (what itoap produces); related to `dec` in unit codec
    spec fn canon(self) -> Seq<u8>;
    proof fn lemma_canon_len(self)
        ensures 1 <= self.canon().len() <= Self::max_len_spec(), Self::max_len_spec() <= 40;
    fn max_len() -> (r: usize)
        ensures r == Self::max_len_spec();
}

// the bytes that are written through a spare-capacity pointer before the next set_len (prophecy, see DESIGN 6/C11)
pub uninterp spec fn staged_of(p: *mut u8) -> Seq<u8>;
pub uninterp spec fn mut_ptr_at(p: *mut u8) -> (Seq<u8>, int);

// itoap::write_to_ptr: safety condition = MAX_LEN spare bytes; writes the canonical text, returns its length
#[verifier::external_body]
pub fn itoa_write_to_ptr<I: WInt>(p: *mut u8, value: I) -> (len: usize)
    requires !mut_ptr_null(p), mut_ptr_spare(p) >= I::max_len_spec(),
    ensures len == value.canon().len(), staged_of(p).len() >= len, staged_of(p).subrange(0, len as int) == value.canon(),
{ unimplemented!() }

// set_len exposes what was written through the pointer derived at the old length (trusted link, invoked explicitly)
#[verifier::external_body]
pub proof fn axiom_staged(p: *mut u8, old_buf: Seq<u8>, new_buf: Seq<u8>, len: int)
    requires
        mut_ptr_at(p) == (old_buf, old_buf.len() as int),
        0 <= len <= staged_of(p).len(),
        new_buf.len() == old_buf.len() + len,
        new_buf.subrange(0, old_buf.len() as int) == old_buf,
    ensures new_buf.subrange(old_buf.len() as int, old_buf.len() + len) == staged_of(p).subrange(0, len),
{}

} // mod wints
