// Reference for the 8-byte lowercase-keyword kernel `ascii_lowercase_u64` (flussab-btor2/src/token.rs).
// Plain Rust: this very text is compiled into the Kani overlay, where the real fast and cold paths are proved equal
// to it for all inputs of up to 8 bytes. Lines starting with `//@ ` are Verus clauses, lines ending in `//@-` are
// dropped for the Verus run; Verus proves the reference against lower_len / the zero-padded word.
pub fn lower_ref(b: [u8; 8], avail: usize) -> (u64, usize) //@-
//@ pub fn lower_ref(b: [u8; 8], avail: usize) -> (r: (u64, usize))
//@     requires avail <= 8,
//@     ensures r.1 == lower_len_upto(b@, avail as nat), le_bytes(r.0) == lower_padded(b@, r.1 as nat),
{
    let mut k: usize = 0;
    let mut out: [u8; 8] = [0; 8];
    while k < avail && b[k] >= b'a' && b[k] <= b'z'
    //@     invariant k <= avail <= 8, forall|i: int| 0 <= i < k ==> is_lower(#[trigger] b@[i]) && out@[i] == b@[i], forall|i: int| k <= i < 8 ==> out@[i] == 0u8,
    //@     decreases avail - k
    {
        out[k] = b[k];
        k += 1;
    }
    //@ proof { lemma_lower_len_upto(b@, avail as nat, k as nat); lemma_le_word(out); assert(out@ =~= lower_padded(b@, k as nat)); }
    (u64::from_le_bytes(out), k) //@-
    //@ (u64_from_le_shim(out), k)
}
