// Reference for the 8-byte decimal kernel `swar_ascii_digits_u64_le` (flussab/src/text.rs).
// Plain Rust: this very text is compiled into the Kani overlay, where the real kernel is proved equal to
// it for all 2^64 words. Lines starting with `//@ ` are Verus clauses (uncommented for the Verus run),
// lines ending in `//@-` are dropped for the Verus run; Verus proves the reference against dec/digits_len.
pub fn swar_ref(b: [u8; 8]) -> (u32, usize) //@-
//@ pub fn swar_ref(b: [u8; 8]) -> (r: (u32, usize))
//@     ensures r.1 == min8(digits_len(b@, 0)), r.0 == dec(b@, 0, r.1 as nat),
{
    let mut v: u32 = 0;
    let mut k: usize = 0;
    //@ proof { reveal_with_fuel(pow10, 10); }
    while k < 8 && b[k] >= b'0' && b[k] <= b'9'
    //@     invariant k <= 8, forall|i: int| 0 <= i < k ==> is_digit(#[trigger] b@[i]), v == dec(b@, 0, k as nat), v < pow10(k as nat), pow10(k as nat) <= 100_000_000,
    //@     decreases 8 - k
    {
        //@ proof { reveal_with_fuel(pow10, 10); }
        v = v * 10 + (b[k] - b'0') as u32;
        k += 1;
    }
    //@ proof { lemma_digits_len_step(b@, 0, k as nat); }
    (v, k)
}
