#!/usr/bin/env python3
"""Writes /verif/MANIFEST.json from the table below (claimed checks) and properties.jsonl (not_applicable for the rest)."""
import json, os
V = os.path.dirname(os.path.dirname(os.path.abspath(__file__)))
props = [json.loads(l) for l in open(os.path.join(V, 'properties.jsonl')) if l.strip()]

TECH = 'contract-based deductive verification: contracts woven into mechanically extracted real function bodies, discharged by Verus'
NOTE = ('Trusted: Verus/Z3, the weaver (rewrites listed per run in the evidence), the std::io::Read/Write protocol models and Vec/raw-pointer shims in prelude/ '
        '(each external_body/assume_specification is scanned and listed in the evidence), 64-bit usize, streams < 2^60 bytes. ')

SCOPE = (' Functions under contract for this property are listed per run in the evidence (coverage.functions_under_contract); '
         'parser-level coverage: DIMACS CNF, WCNF and GCNF parsers, the SAT solver log parser and all their tokens; ASCII and binary AIGER header, section readers, '
         'symbol table, comment, tokens and entry writers; BTOR2 tokens. Not under contract and not covered by this claim: the BTOR2 line parser (parser.rs) and '
         'writer (btor2.rs) and the DIMACS header writers (writeln!). For the BTOR2 line parser/writer a BOUNDED native stand-in (labelled bounded in the evidence, never counted '
         'in obligations/discharged) runs the real crate on every input of a stated finite set under five read schedules and reports concrete failing inputs.')

CLAIMED = {
    'C01': dict(cat='proof', ref='6/C01', text='Every reader, scanner, token and parser function under contract has a postcondition that mentions only the stream (ghost prophecy `full`, `fails`) and the cursor/line bookkeeping, never the read schedule; the source model admits every partition into reads, Interrupted results and fault positions, so the verified results are functions of the bytes alone. Fast paths (8-byte kernel) are proved equal to the byte-wise paths (Verus + Kani for all 2^64 words). mark is part of the view and proved stable across refills.' + SCOPE,
                tech=TECH + '; Kani/CBMC complete harness for the 8-byte kernel', note=NOTE + 'Composition of schedule-free functions is schedule-free (meta-argument).'),
    'C04': dict(cat='proof', ref='6/C04', text='Reader: an error returned by the source is parked and stays parked until check_io_error (pending_ok is preserved by every operation). LineReader::give_up*: a parked I/O error wins over any syntax error. eof tokens succeed only at the end of a stream whose failure is not pending (=> the stream does not fail). Every error value of the verified tokens/parsers satisfies `located`/`reported`: an I/O error only for a failing source, no syntax error once the failure was observed. End-of-input acceptors (CNF next_clause clean end, AIGER comment and symbol/line content) are proved to accept only if the source does not fail.' + SCOPE,
                tech=TECH, note=NOTE),
    'C05': dict(cat='proof', ref='6/C05', text='For every function under contract Verus discharges: no arithmetic overflow/underflow, every index/slice in bounds, every unwrap on Some/Ok, every debug_assert, every callee precondition (advance within the scanned offset, give_up_at on the current line), termination of every loop (decreases). Stack depth, heap size and wall time are not expressible; allocation from declared counts (AIGER parse) is not under contract yet.' + SCOPE,
                tech=TECH, note=NOTE),
    'C06': dict(cat='proof', ref='6/C06', text='Exact numbers: scanners (C13) carried through cnf uint/int/braced_uint, aiger uint (no leading zeros), binary_uint (7-bit groups) and delta_code (delta <= reference). Limits as postconditions: var_count <= MAX_DIMACS, header limits installed unless ignore_header, literals within +-limit and equal to the scanned value through the lossless from_dimacs cast, clause_count/clause_limit gate further clauses and the clean end, group limit; AIGER header M <= (MAX_CODE-1)/2 and I+L+A <= M, literals <= 2M+1 with defined literals even and non-zero, section readers yield exactly the declared count, symbol indices below the count of their own section.' + SCOPE,
                tech=TECH, note=NOTE),
    'C07': dict(cat='proof', ref='6/C07', text='The layout freedom is proved as token-level facts: end-of-word = space/tab/CR/LF/end; tokens eat trailing blanks; newline = LF or CRLF plus blanks; comment = through the next LF plus blanks; non_terminating_linebreaks = one newline then any sequence of comments/newlines (spec fn skip_cn); leading zeros and -0 through dec/signed_val; the statement loop of next_clause skips comments and blank lines. The meta-theorem "two renderings of one token sequence parse equal" is a relational statement that is NOT proved (see DESIGN 6/C07); the solver log parser is under contract for limits, clean end and error location, not for layout equivalence.' + SCOPE,
                tech=TECH, note=NOTE),
    'C08': dict(cat='proof', ref='6/C08', text='LineReader::inv(): line_start <= position, no newline between them, line == 1 + number of LFs before line_start (exact for text content; bounds only once binary AIGER content was consumed). Every error of the verified tokens/parsers is `located` (line of the bookkeeping, 1 <= column <= position - line_start + 1) or `reported` at the exact offset (cursor for unexpected tokens, mark for range errors; tokens that fall through leave cursor, line bookkeeping and mark untouched). line_at_offset has the weakest precondition that keeps the accounting exact, incl. the manual multi-line accounting of AIGER comments.' + SCOPE,
                tech=TECH, note=NOTE),
    'C09': dict(cat='proof', ref='6/C09', text='Reader level (all schedules, all histories): request_more performs exactly one successful read (ghost ok_reads), none when complete; requests satisfied by buffered data leave the source untouched; the source is never called after it ended (precondition !ended of the single read site). Look-ahead bounds over the ghost read history (last_from) for the C16 helpers, the scanners (fast path touches only buffered bytes) and the interactive end-of-line tokens (nothing beyond the newline itself). Composition of the look-ahead bounds along a whole clause/line is not proved yet.' + SCOPE,
                tech=TECH, note=NOTE),
    'C10': dict(cat='proof', ref='6/C10', text='Reader buffer: |buf| <= 4*peak_chunk + peak_valid (ghost high-water marks, woven ghost field) is part of wf() and preserved by every operation; valid_len after a request is bounded by max(buffered, look-ahead + chunk); the bound does not mention the position. Parser side (one literal buffer per clause, cleared first) and allocator behaviour (capacity) are assumptions about Vec and are not proved.',
                tech=TECH, note=NOTE),
    'C02': dict(cat='proof', ref='6/C02', text='Representation invariant wf() and the abstract view (stream, position, mark, buffered, complete, parked) are required and re-established by every DeferredReader operation, for an arbitrary read schedule admitted by the Read protocol model; each operation has the strongest postcondition over the whole view. Unbounded: all inputs, histories and schedules. from_read/from_buf_reader (generic constructors over impl Read) are outside the verified set.',
                tech=TECH, note=NOTE),
    'C11': dict(cat='proof', ref='6/C11', text='DeferredWriter::inv() (buffer = suffix of the ghost written stream; accepted bytes are a strictly increasing index selection of it; exact when no sink failure) is preserved by every method incl. the Write impl and drop; error parking, single report and sink quiescence are postconditions; integer writing appends the canonical text (itoap assumed).',
                tech=TECH, note=NOTE + 'itoap (write_to_ptr, write) and Write::write_all are assumed; the staged-bytes prophecy for buf_write_ptr/advance_unchecked is an axiom (axiom_staged).'),
    'C03': dict(cat='proof', ref='0.4, 6/C03', text='Proved, unbounded, at the level of codecs and entries (NOT yet whole documents): (1) 7-bit group codec: Writer::write_binary_uint appends varint_enc(n); binary_uint and delta_code accept every encoding of a usize and return exactly its value, consuming exactly the encoding; lemma_varint_roundtrip ties the two for all n. (2) decimal codec: the integer writer appends canon_dec(v) (itoap assumed canonical); lemma_canon_at: that text followed by a non-digit scans back as v, canonically. (3) binary AIGER writer: write_header (trailing zero fields dropped down to five), write_lit, write_count, write_latch (three reset forms), write_and_gate (input swap, deltas, order assertion), write_symbol, write_comment each append exactly the rendering r_*(entry). (4) every AIGER/CNF/BTOR2 token and section reader under contract has an exact (two-sided where stated) functional postcondition over the stream, so a parser that reads something else than what is written fails its own clause; Dimacs::from_dimacs is lossless under the range check. Not covered: ascii AIGER writer, DIMACS/WCNF/GCNF writers, BTOR2 write_into/next_line, whole-file drivers parse()/write_ordered_aig, entry-level parse(render(x)) == x lemmas for header/latch/symbol; known unrepaired gaps D4 (B/C/J/F header limits) and D9 (DecimalConst) are outside the functions under contract.' + SCOPE,
                tech=TECH, note=NOTE + 'itoap output = canon_dec (assumption, stated as the WInt impls in prelude/codec.rs).'),
    'C12': dict(cat='proof', ref='0.4, 6/C12', text='Proved by Verus on the real bodies, for all AIGs, all option sets and all valuations: (1) LitMap polarity algebra (insert/get/contains_key against lookup/xor1). (2) Aig::lit_defs: constant, inputs and gate outputs are pairwise distinct variables, error iff a duplicate exists, and every and-gate entry of the table is a gate of the AIG with its inputs (defs_from). (3) Renumber::transfer (the explicit-stack DFS with polarity xor, constant folding and structural hashing): with a ghost valuation v of the old literal codes about which nothing is assumed, and ev = the value of a new literal code computed from the new gate list over the leaf values of v, the invariant rinv says that every entry of lit_map, every partially translated gate on the stack and the returned literal n satisfy ev(n) == v(old literal) whenever v is a valuation of the definition table (v(0) false, negation by the low bit, every and-gate entry satisfied); every pushed gate has its larger input first and both inputs below its own code 2*(leaves + index + 1), last_code counts leaves and gates, structural-hash hits refer to an equal gate. (4) Renumber::initialize and Renumber::new: leaves numbered consecutively (inputs, then latches), the latch redefinition check, the invariant established and kept across all root transfers, every root literal mapped. (4b) Renumber::renumber_aig: the end-to-end statement - for every valuation v of the definition table (arbitrary ghost v), every latch next-state, output, bad-state, constraint, fairness and justice literal of the ordered result evaluates (ev over the returned gate list and the leaf values of v) to the value of the original literal; input/latch counts, max_var_index and the gate order of the result. (5) binary and-gate order on the writer and parser side. NOT proved: termination of transfer (exec_allows_no_decreases_clause; the cycle check is not shown to fire), that FoundCycle/LitNotDefined are only returned when justified, the element-wise behaviour of the iterator adapters in renumber_aig (shims map_lits/map_lits2/map_latches with stated specs), symbols/comment carried over (only their presence), and the code-space assumption below.',
                tech=TECH, note=NOTE + 'ASSUMED: next_code (replaces `self.last_code += 2`): the renumbered circuit needs at most one new variable per variable the original defines, so codes stay within the literal type (counting argument, not machine-checked). Shims for the two-element sort, array map, array element assignment and the HashMap Entry API (get + insert) with stated specs; derived Hash/Eq of OrderedAndGate obey the key model; generalisation from the arbitrary ghost valuation to all valuations is a meta-argument.'),
    'C13': dict(cat='proof', ref='6/C13', text='All eight decimal scanners are verified once, generically over a trait ScanInt whose 12 impls (i8..i128,u8..u128,isize,usize) are themselves verified against the primitive overflowing ops: result == exact decimal value iff representable, offset == end of the digit run, lone minus not consumed; the multi variants have the same postcondition as the simple ones (fast == simple). The SWAR kernel is proved equal to a byte-wise reference for all 2^64 words by Kani; the reference is proved against dec/digits_len by Verus.',
                tech=TECH + '; Kani/CBMC complete harness for the 8-byte kernel', note=NOTE + 'num-traits impls = inherent ops (R7).'),
    'C14': dict(cat='proof', ref='6/C14', text='Every unsafe operation of reader, writer and scanners is rewritten to a shim whose precondition is its safety condition, and that precondition is proved from wf()/inv() and the guards; documented panics are unwinding points at which wf() and the unchanged view are asserted; the load-bearing assert on the byte count returned by Read::read is needed for wf(). AddressSanitizer runs are not applicable.',
                tech=TECH + '; Kani memory checks on the kernel', note=NOTE + 'The ensures clauses of the unsafe shims are trusted; their requires are proved.'),
    'C15': dict(cat='proof', ref='6/C15', text='Verus proves weakest-precondition contracts for or_give_up, optional, matches, or_parse, or_always_parse, and_then, map, map_err and From<Result>, universally over the closure type (runs-iff through f.requires/f.ensures). Kani decides all 13 Parsed combinators and the 3 ResultExt methods on the complete finite table (input case x closure outcome) with call counters; and_also, and_do, err_into and ResultExt are decided by Kani only.',
                tech=TECH + '; Kani exhaustive finite harnesses with call counters', note=NOTE + 'Parametricity: the finite u8 table is complete for these polymorphic functions.'),
    'C16': dict(cat='proof', ref='6/C16', text='tabs_or_spaces, newline, next_newline and fixed are verified against spec functions taken from the property (ws_len, nl_len, to_nl, starts_with/match_len): exact offset, view unchanged (nothing consumed), and the look-ahead bound over the ghost read history (fixed stops requesting at the first mismatching byte; empty pattern requests nothing). All byte strings, offsets, patterns and read schedules.',
                tech=TECH, note=NOTE),
}

checks = []
for p in props:
    c = CLAIMED.get(p['id'])
    if not c:
        continue
    checks.append({
        'property_id': p['id'],
        'quick_cmd': './check %s --tier quick' % p['id'],
        'thorough_cmd': './check %s --tier thorough' % p['id'],
        'evidence_file': '/verif/evidence/%s.json' % p['id'],
        'replay_cmd_template': './check --replay {path}',
        'engine': 'verus-weave' + ('+kani-overlay' if 'Kani' in c['tech'] else '') + ('+native-standin(bounded)' if p['id'] in ('C01', 'C03', 'C04', 'C05', 'C08', 'C09') else ''),
        'level_claimed': {'category': c['cat'], 'text': c['text'], 'design_ref': c['ref']},
        'level_note': c['note'],
        'technique': c['tech'],
    })

m = {
    'version': 1,
    'setup_cmd': './setup.sh',
    'hooks': {'guard': 'none (no source hooks in /repo; cfg(kani) overlays exist only in per-run scratch copies outside /repo)',
              'enable': 'n/a: checks extract from /repo as it is',
              'baseline_off_cmd': 'cd /repo && cargo test --workspace --no-fail-fast --offline',
              'source_commits': [], 'add_only': True},
    'engines': [
        {'name': 'verus-weave', 'path': '/verif/weave + /verif/vp + /verif/contracts + /verif/prelude', 'serves_properties': sorted(CLAIMED),
         'kind_free_text': 'syn-based extraction of real function bodies from /repo on every run, contracts woven in, single-file Verus runs per unit'},
        {'name': 'kani-overlay', 'path': '/verif/vp/kani.py + /verif/kani', 'serves_properties': ['C13', 'C14', 'C15', 'C01'],
         'kind_free_text': 'scratch copy of /repo with appended #[cfg(kani)] harness modules; complete (loop-free / fully unwound) harnesses; counterexamples replayed natively'},
        {'name': 'native-standin', 'path': '/verif/standin', 'serves_properties': ['C01', 'C03', 'C04', 'C05', 'C08', 'C09'],
         'kind_free_text': 'BOUNDED stand-in for the BTOR2 line parser/writer only (outside the weaver): the real crates built from the working tree, run on all token sequences up to a stated length, curated documents with all prefixes/substitutions and seeded sequences, under five read schedules and a fault at every offset; never the deciding engine of a proof claim'},
    ],
    'checks': checks,
    'not_applicable': [{'property_id': p['id'], 'reason': 'not claimed: no function this property depends on is under contract yet (DESIGN.md section 0.4)'}
                       for p in props if p['id'] not in CLAIMED],
    'notes': 'exit 0 = every obligation tagged with the property discharged; exit 1 = VIOLATION lines (failed named obligation; suffix no-failing-input-found when the verifier gave no counterexample); exit 2 = UNDECIDED (lost anchor, unsupported construct, rlimit).',
}
json.dump(m, open(os.path.join(V, 'MANIFEST.json'), 'w'), indent=1)
print('claimed', [c['property_id'] for c in checks])
