#!/usr/bin/env python3
"""Writes /verif/MANIFEST.json from the table below (claimed checks) and properties.jsonl (not_applicable for the rest)."""
import json, os
V = os.path.dirname(os.path.dirname(os.path.abspath(__file__)))
props = [json.loads(l) for l in open(os.path.join(V, 'properties.jsonl')) if l.strip()]

TECH = 'contract-based deductive verification: contracts woven into mechanically extracted real function bodies, discharged by Verus'
NOTE = ('Trusted: Verus/Z3, the weaver (rewrites listed per run in the evidence), the std::io::Read/Write protocol models and Vec/raw-pointer shims in prelude/ '
        '(each external_body/assume_specification is scanned and listed in the evidence), 64-bit usize, streams < 2^60 bytes. ')

CLAIMED = {
    'C02': dict(cat='proof', ref='6/C02', text='Representation invariant wf() and the abstract view (stream, position, mark, buffered, complete, parked) are required and re-established by every DeferredReader operation, for an arbitrary read schedule admitted by the Read protocol model; each operation has the strongest postcondition over the whole view. Unbounded: all inputs, histories and schedules. from_read/from_buf_reader (generic constructors over impl Read) are outside the verified set.',
                tech=TECH, note=NOTE),
    'C11': dict(cat='proof', ref='6/C11', text='DeferredWriter::inv() (buffer = suffix of the ghost written stream; accepted bytes are a strictly increasing index selection of it; exact when no sink failure) is preserved by every method incl. the Write impl and drop; error parking, single report and sink quiescence are postconditions; integer writing appends the canonical text (itoap assumed).',
                tech=TECH, note=NOTE + 'itoap (write_to_ptr, write) and Write::write_all are assumed; the staged-bytes prophecy for buf_write_ptr/advance_unchecked is an axiom (axiom_staged).'),
    'C13': dict(cat='proof', ref='6/C13', text='All eight decimal scanners are verified once, generically over a trait ScanInt whose 12 impls (i8..i128,u8..u128,isize,usize) are themselves verified against the primitive overflowing ops: result == exact decimal value iff representable, offset == end of the digit run, lone minus not consumed; the multi variants have the same postcondition as the simple ones (fast == simple). The SWAR kernel is proved equal to a byte-wise reference for all 2^64 words by Kani; the reference is proved against dec/digits_len by Verus.',
                tech=TECH + '; Kani/CBMC complete harness for the 8-byte kernel', note=NOTE + 'num-traits impls = inherent ops (R7).'),
    'C14': dict(cat='proof', ref='6/C14', text='Every unsafe operation of reader, writer and scanners is rewritten to a shim whose precondition is its safety condition, and that precondition is proved from wf()/inv() and the guards; documented panics are unwinding points at which wf() and the unchanged view are asserted; the load-bearing assert on the byte count returned by Read::read is needed for wf(). AddressSanitizer runs are not applicable.',
                tech=TECH + '; Kani memory checks on the kernel', note=NOTE + 'The ensures clauses of the unsafe shims are trusted; their requires are proved.'),
    'C15': dict(cat='proof', ref='6/C15', text='Verus proves weakest-precondition contracts for or_give_up, optional, matches, or_parse, or_always_parse, and_then, map, map_err and From<Result>, universally over the closure type (runs-iff through f.requires/f.ensures). Kani decides all 13 Parsed combinators and the 3 ResultExt methods on the complete finite table (input case x closure outcome) with call counters; and_also, and_do, err_into and ResultExt are decided by Kani only.',
                tech=TECH + '; Kani exhaustive finite harnesses with call counters', note=NOTE + 'Parametricity: the finite u8 table is complete for these polymorphic functions.'),
    'C16': dict(cat='proof', ref='6/C16', text='tabs_or_spaces, newline, next_newline and fixed are verified against spec functions taken from the property (ws_len, nl_len, to_nl, starts_with/match_len): exact offset, view unchanged (nothing consumed), and the look-ahead bound over the ghost read history (fixed stops requesting at the first mismatching byte; empty pattern requests nothing). All byte strings, offsets, patterns and read schedules.',
                tech=TECH, note=NOTE),
}

checks = []
for p in props:
    c = CLAIMED.get(p['id'])
    if not c:
        continue
    checks.append({
        'property_id': p['id'],
        'quick_cmd': './check %s --tier quick' % p['id'],
        'thorough_cmd': './check %s --tier thorough' % p['id'],
        'evidence_file': '/verif/evidence/%s.json' % p['id'],
        'replay_cmd_template': './check --replay {path}',
        'engine': 'verus-weave' + ('+kani-overlay' if 'Kani' in c['tech'] else ''),
        'level_claimed': {'category': c['cat'], 'text': c['text'], 'design_ref': c['ref']},
        'level_note': c['note'],
        'technique': c['tech'],
    })

m = {
    'version': 1,
    'setup_cmd': './setup.sh',
    'hooks': {'guard': 'none (no source hooks in /repo; cfg(kani) overlays exist only in per-run scratch copies outside /repo)',
              'enable': 'n/a: checks extract from /repo as it is',
              'baseline_off_cmd': 'cd /repo && cargo test --workspace --no-fail-fast --offline',
              'source_commits': [], 'add_only': True},
    'engines': [
        {'name': 'verus-weave', 'path': '/verif/weave + /verif/vp + /verif/contracts + /verif/prelude', 'serves_properties': sorted(CLAIMED),
         'kind_free_text': 'syn-based extraction of real function bodies from /repo on every run, contracts woven in, single-file Verus runs per unit'},
        {'name': 'kani-overlay', 'path': '/verif/vp/kani.py + /verif/kani', 'serves_properties': ['C13', 'C14', 'C15', 'C01'],
         'kind_free_text': 'scratch copy of /repo with appended #[cfg(kani)] harness modules; complete (loop-free / fully unwound) harnesses; counterexamples replayed natively'},
    ],
    'checks': checks,
    'not_applicable': [{'property_id': p['id'], 'reason': 'not claimed yet: contracts for the functions this property depends on are still being built (DESIGN.md section 10); no bounded stand-in is offered in place of a deductive core'}
                       for p in props if p['id'] not in CLAIMED],
    'notes': 'exit 0 = every obligation tagged with the property discharged; exit 1 = VIOLATION lines (failed named obligation; suffix no-failing-input-found when the verifier gave no counterexample); exit 2 = UNDECIDED (lost anchor, unsupported construct, rlimit).',
}
json.dump(m, open(os.path.join(V, 'MANIFEST.json'), 'w'), indent=1)
print('claimed', [c['property_id'] for c in checks])
