#!/bin/bash
# usage: tools/seedtest.sh <worktree dir> <prop> <A|B> [more props...]
# 1. confirms the seed in a scratch copy: patch applies, tests pass, demo fails with / passes without
# 2. applies the patch to /repo, runs ./check <prop>, undoes it
WT=$1; P=$2; X=$3; shift 3; EXTRA="$@"
S=$WT/SEED/$X
[ -f $S/patch.diff ] || { echo "no patch $S/patch.diff"; exit 3; }
echo "=== seed $P/$X: $(grep -m1 '^+++' $S/patch.diff)"
cd $WT && git checkout -q -- . && git apply --check $S/patch.diff || { echo "PATCH DOES NOT APPLY"; exit 3; }
if [ -z "$SKIP_CONFIRM" ]; then
  export CARGO_TARGET_DIR=$WT/target
  git apply $S/patch.diff
  T=$(cargo test --workspace --offline 2>&1 | grep -E "^test result" | grep -v " 0 failed" | wc -l)
  B=$(cargo build --workspace --offline 2>&1 | grep -c "^error")
  if [ -d $S/demo ]; then (cd $S/demo && timeout 600 cargo run --offline -q >/tmp/seed_demo_with.txt 2>&1); DW=$?; else DW=na; fi
  git checkout -q -- .
  if [ -d $S/demo ]; then (cd $S/demo && timeout 600 cargo run --offline -q >/tmp/seed_demo_without.txt 2>&1); DO=$?; else DO=na; fi
  echo "confirm: build_errors=$B failing_test_groups=$T demo_with_change_exit=$DW demo_without_exit=$DO"
fi
cd /repo && git apply $S/patch.diff || { echo "cannot apply to /repo"; exit 3; }
cd /verif
for Q in $P $EXTRA; do
  ./check $Q > /tmp/seed_check.txt 2>&1; E=$?
  echo "check $Q exit=$E: $(grep -c VIOLATION /tmp/seed_check.txt) violations; $(grep -m2 -E 'obligation|UNDECIDED' /tmp/seed_check.txt | cut -c1-220 | tr '\n' '|')"
done
cd /repo && git checkout -q -- . && git status --short | head -3
