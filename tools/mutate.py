#!/usr/bin/env python3
"""Mutation run (DESIGN 0.9): small in-place edits of the library (operator, constant, condition, dropped statement), kept if the
workspace still compiles and its test suite passes, then every property check is run on a scratch copy. A mutant that every check
lets through is either equivalent or shows a hole in the contracts / stand-ins; those are listed for triage.
usage: tools/mutate.py <n_per_file> <jobs> <out.jsonl> [seed] [file-substring]"""
import os, re, sys, json, random, shutil, subprocess, time
from concurrent.futures import ThreadPoolExecutor
V = '/verif'
FILES = ['flussab/src/deferred_reader.rs', 'flussab/src/deferred_writer.rs', 'flussab/src/text.rs', 'flussab/src/parser.rs', 'flussab/src/write/text.rs',
         'flussab-cnf/src/token.rs', 'flussab-cnf/src/cnf.rs', 'flussab-cnf/src/wcnf.rs', 'flussab-cnf/src/gcnf.rs', 'flussab-cnf/src/sat_solver_log.rs', 'flussab-cnf/src/dimacs_trait.rs',
         'flussab-aiger/src/token.rs', 'flussab-aiger/src/ascii.rs', 'flussab-aiger/src/binary.rs', 'flussab-aiger/src/aig.rs',
         'flussab-btor2/src/token.rs', 'flussab-btor2/src/parser.rs', 'flussab-btor2/src/btor2.rs']
OPS = [(r'>=', '>'), (r'<=', '<'), (r'(?<![<>=!-])>(?![>=])', '>='), (r'(?<![<>=!-])<(?![<=])', '<='), (r'==', '!='), (r'!=', '=='), (r'&&', '||'), (r'\|\|', '&&'),
       (r'\+ 1\b', '+ 0'), (r'\+ 1\b', '+ 2'), (r'- 1\b', '- 0'), (r'\+= 1\b', '+= 2'), (r'\* 2\b', '* 3'), (r'\btrue\b', 'false'), (r'\bfalse\b', 'true'),
       (r'\bSome\(true\)', 'Some(false)'), (r'\.min\(', '.max('), (r'\.max\(', '.min('), (r'\bcontinue;', 'break;'), (r'\b0x7f\b', '0x3f'), (r'\b0x80\b', '0x40'), (r'\b7\b', '8'), (r'\b2\b', '1'), (r'\b8\b', '7'), (r'\b10\b', '9')]


def candidates(path, text):
    out = []
    lines = text.split('\n')
    in_tests = False
    for i, l in enumerate(lines):
        s = l.strip()
        if s.startswith('#[cfg(test)]') or s.startswith('mod tests'):
            in_tests = True
        if in_tests:
            continue
        if not s or s.startswith('//') or s.startswith('#[') or s.startswith('use ') or 'debug_assert' in s or s.startswith('///'):
            continue
        code = l.split('//')[0]
        for pat, rep in OPS:
            for m in re.finditer(pat, code):
                if code[:m.start()].count('"') % 2 == 1:
                    continue                      # inside a string literal
                if rep in ('>=', '<=') and re.search(r'\bfn\b|\bimpl\b|\bwhere\b|->|::<|\bVec<|\bOption<|\bResult<|\bParsed<|<\'|\bdyn\b|PhantomData|: &', code):
                    continue                      # angle brackets of generics, not comparisons
                if pat in (r'(?<![<>=!-])>(?![>=])', r'(?<![<>=!-])<(?![<=])') and (re.search(r'[A-Za-z_>]\s*$', code[:m.start()]) and re.match(r'\s*[A-Za-z_\'(&\[]', code[m.end():]) and ('<' in code and '>' in code) and not re.search(r'\b(if|while)\b', code)):
                    continue                      # generics, not comparisons
                new = code[:m.start()] + rep + code[m.end():] + l[len(code):]
                out.append({'file': path, 'line': i + 1, 'kind': 'op %s -> %s' % (m.group(0), rep), 'old': l, 'new': new})
        # statement deletion: a whole-line call or assignment statement
        if re.match(r'^\s*[A-Za-z_][A-Za-z_0-9\.\[\]\*]*(\(.*\))?\s*(=|\+=|-=|\|=)?[^=].*;\s*$', l) and not re.match(r'^\s*(let|return|break|continue|pub|fn|use|type|const|static)\b', l) and l.count('(') == l.count(')') and l.count('{') == l.count('}'):
            out.append({'file': path, 'line': i + 1, 'kind': 'drop statement', 'old': l, 'new': re.match(r'^\s*', l).group(0) + '// (dropped) ' + s})
    return out


def sh(cmd, cwd=None, env=None, timeout=3600):
    try:
        p = subprocess.run(cmd, shell=True, cwd=cwd, env=env, capture_output=True, text=True, timeout=timeout)
        return p.returncode, p.stdout + p.stderr
    except subprocess.TimeoutExpired:
        return 124, 'timeout'


def run_one(args):
    k, m = args
    slot = SLOTS.get()          # a free slot: two mutants never share a scratch directory at the same time
    try:
        return run_in_slot(slot, m)
    finally:
        SLOTS.put(slot)


def run_in_slot(slot, m):
    base = '/tmp/wt/mt%d' % slot
    repo = base + '/repo'
    os.makedirs(base, exist_ok=True)
    sh('rsync -a --delete --exclude target --exclude .git /repo/ %s/' % repo)
    # same path for every mutant of a slot: give every source file a fresh mtime, otherwise cargo keeps objects built from the previous mutant
    sh('find %s -name "*.rs" -exec touch {} +' % repo)
    p = os.path.join(repo, m['file'])
    lines = open(p).read().split('\n')
    if lines[m['line'] - 1] != m['old']:
        m['status'] = 'stale'
        return m
    lines[m['line'] - 1] = m['new']
    open(p, 'w').write('\n'.join(lines))
    env = dict(os.environ, CARGO_TARGET_DIR=base + '/target', CARGO_NET_OFFLINE='true')
    rc, out = sh('cargo build --workspace --offline -q 2>&1 | tail -3', cwd=repo, env=env)
    if 'error' in out:
        m['status'] = 'does not compile'
        return m
    rc, out = sh('timeout 600 cargo test --workspace --offline 2>&1 | grep -E "^test result|panicked|error" | head -20', cwd=repo, env=env, timeout=900)
    if 'FAILED' in out or 'failed' in out and ' 0 failed' not in out.replace('; 0 failed', ' 0 failed') or 'panicked' in out or 'test result' not in out:
        m['status'] = 'killed by the test suite'
        return m
    res = {}
    env2 = dict(os.environ, VP_REPO=repo, VP_GEN=base + '/gen', VP_EVIDENCE=base + '/ev', VP_STANDIN_TARGET=base + '/sdt')
    t0 = time.time()
    for n in range(1, 17):
        prop = 'C%02d' % n
        rc, out = sh('./check %s' % prop, cwd=V, env=env2, timeout=2400)
        res[prop] = rc
        if rc == 1 and 'first' not in m:
            ob = re.findall(r'obligation (\S+) \((\w+)\)', out)
            m['first'] = [prop] + [o for o, _ in ob[:3]]
    m['checks'] = res
    m['wall_s'] = round(time.time() - t0)
    if any(v == 1 for v in res.values()):
        m['status'] = 'detected'
        m['detected_by_proof'] = any(o and not o.startswith('standin') for o in m.get('first', [])[1:])
    elif any(v == 2 for v in res.values()):
        m['status'] = 'undecided only'
    else:
        m['status'] = 'SURVIVED'
    return m


if __name__ == '__main__':
    n_per_file, JOBS, outp = int(sys.argv[1]), int(sys.argv[2]), sys.argv[3]
    import queue
    SLOTS = queue.Queue()
    for i in range(JOBS):
        SLOTS.put(i)
    seed = int(sys.argv[4]) if len(sys.argv) > 4 else 1
    only = sys.argv[5] if len(sys.argv) > 5 else ''
    rnd = random.Random(seed)
    todo = []
    for f in FILES:
        if only and only not in f:
            continue
        c = candidates(f, open(os.path.join('/repo', f)).read())
        rnd.shuffle(c)
        todo += c[:n_per_file]
    print('mutants:', len(todo), file=sys.stderr)
    with ThreadPoolExecutor(max_workers=JOBS) as ex, open(outp, 'a') as fo:
        for m in ex.map(run_one, list(enumerate(todo))):
            fo.write(json.dumps(m) + '\n')
            fo.flush()
            print(m['status'], m['file'], m['line'], m['kind'], file=sys.stderr)
