#!/usr/bin/env python3
"""Rebuilds section 0.8 of tools/sec0.md (table of seeded breaking changes) from seeded/*/meta.json, then merges DESIGN.md."""
import json, glob, re, os, subprocess
V = os.path.dirname(os.path.dirname(os.path.abspath(__file__)))
rows, cnt, harmless = [], {}, []
for f in sorted(glob.glob(os.path.join(V, 'seeded', '*', 'meta.json'))):
    m = json.load(open(f))
    title = m['needs_to_manifest'].split('\n')[0]
    title = re.sub(r'^#\s*(C\d\d\s*/?\s*)?(seed|change|Seed)?\s*[AB]?\s*[—-]\s*', '', title).strip()
    title = re.sub(r'^C\d\d seed [AB] — ', '', title)
    st = m['check_result']
    if m.get('kind', '').startswith('harmless'):
        harmless.append('| %s | %s | %s | %s |' % (m['id'], title.replace('|', '/'), st, m['failing_obligation'].replace('|', '/')[:260]))
        continue
    if st == 'pending':
        st = 'missed'
    key = 'caught after strengthening' if 'after' in st else ('caught' if st.startswith('caught') else ('undecided' if 'undecided' in st else 'missed'))
    cnt[key] = cnt.get(key, 0) + 1
    rows.append('| %s | %s | %s | %s |' % (m['id'], title.replace('|', '/'), ('**%s**' % st) if key in ('missed', 'undecided') else st, m['failing_obligation'].replace('|', '/')))
head = '''### 0.8 Seeded changes (`/verif/seeded/<id>-{A..G,J,K,L,M,H,HH}`)

Produced by fresh sub-agents that saw only the property text and their own scratch worktree; each
compiles, passes the 55 tests and has a demo that fails with the change and passes without. I
confirmed each (`tools/seedtest.sh` / `tools/seedtest3.sh`), ran the property's check on it, undid it;
`tools/seed_regress.sh` re-runs all of them against the current contracts on scratch copies
(`VP_NO_STANDIN=1` for proofs only). Letters: `-A`, `-B` first two rounds (32 changes), `-C`, `-D` third
round (32), `-E` fourth round (16 breaking), `-F` fifth round (16 breaking), `-G`, `-J` sixth round (32 breaking; the sub-agents were given the list of all earlier changes and told to be different in kind), `-K`, `-L` seventh round (32 breaking; pointed at constructors, Display/From impls, writers, configuration builders, unusual literal types, error paths and interactions between two public calls), `-M` eighth round (4 breaking, C06 C11 C12 C16; three fail a named Verus obligation - `gcnf::Parser::new#limits`, `text::newline#value`, the loop invariant of `Renumber::transfer` - and all four a bounded suite: a short round in the continuation session of 2026-10-05; C12-M fails the loop invariant of `Renumber::transfer` at the const-fold `continue`, C11-M rewrites a guarded statement so the proof side loses its anchor - exit 2 on its own - and the bounded writer suite decides), `-H` / `-HH` fourth and fifth
round (16 + 16 harmless refactorings, listed separately below). The titles are the sub-agents' own and may carry their own round/letter labels.
A BTOR2-only stand-in existed from the first round (obligations then named `standin:btor2::...`, now `standin:fmt:btor2::...`); the suites for all crates were added after the third round, in response to it; "now:" lists what
the current machinery reports for the same change.

| seed | change | result | failing obligation / why not |
|------|--------|--------|------------------------------|
'''
summary = '\n\n%d breaking changes: %d caught at once, %d caught only after something was strengthened in response (a contract, a proof anchor, the attribution of in-body failures, or a bounded suite), %d undecided (exit 2), %d missed.\n' % (
    sum(cnt.values()), cnt.get('caught', 0), cnt.get('caught after strengthening', 0), cnt.get('undecided', 0), cnt.get('missed', 0))
summary += '''
Harmless refactorings (rounds 4 and 5; each preserves behaviour exactly - same results, errors, requests to the source, memory - and
was confirmed so by its author's differential demo). The requirement is that no check raises an alarm:

| seed | refactoring | result | what the proof run said |
|------|-------------|--------|-------------------------|
''' + '\n'.join(harmless) + '''

%d harmless refactorings, %d alarms. A rewritten function loses its proof anchors (the contract names statements and loops of the
old body), so the deductive run answers UNDECIDED and the bounded stand-ins, which only look at behaviour, pass: exit 2, no VIOLATION line.
''' % (len(harmless), sum(1 for h in harmless if 'FALSE ALARM' in h))
if os.path.exists(os.path.join(V, 'tools', 'sec09.md')):
    summary += '\n' + open(os.path.join(V, 'tools', 'sec09.md')).read()
p = os.path.join(V, 'tools', 'sec0.md')
t = open(p).read()
t = t[:t.index('### 0.8 Seeded')] + head + '\n'.join(rows) + summary
open(p, 'w').write(t)
subprocess.run(['python3', os.path.join(V, 'tools', 'merge_design.py')])
print(cnt)
