#!/bin/bash
# development helper (no registered command uses it): unit check against a clean scratch worktree, so that it can run while
# /repo is temporarily patched by a seed run. Create the worktree first: git -C /repo worktree add --detach /tmp/wt/repo_clean HEAD
# (and remove it afterwards: git -C /repo worktree remove --force /tmp/wt/repo_clean). Without it, the unit is checked against /repo.
R=${VP_REPO:-/tmp/wt/repo_clean}; [ -d "$R" ] || R=/repo
mkdir -p /tmp/wt/gen2
cd /verif && VP_REPO=$R VP_GEN=/tmp/wt/gen2 ./check --unit "$@"
