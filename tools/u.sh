#!/bin/bash
# unit check against a clean scratch worktree (usable while /repo is temporarily patched by a seed run)
cd /verif && VP_REPO=${VP_REPO:-/tmp/wt/repo_clean} VP_GEN=/tmp/wt/gen2 ./check --unit "$@"
