#!/bin/bash
# harmless edits: each must leave every property intact; expected: status ok (undecided is tolerated, failed is a false alarm)
cd /verif
t() { echo "--- $1 :: $2 -> $3 [$4]"; tools/mut.sh "$1" "$2" "$3" "$4" 2>&1 | grep -E "mutated|MUTATION|^unit|FAIL" | cut -c1-220 | head -4; }
t flussab/src/deferred_reader.rs 'let mut target_end' 'let mut tgt_end' core_read
t flussab/src/deferred_reader.rs 'target_end' 'tgt_end' core_read 99
t flussab/src/text.rs 'let mut offset = offset;' 'let mut offset = offset + 0;' text
t flussab-cnf/src/token.rs 'token::skip_whitespace\(input\);' 'token::skip_whitespace(input); let _unused = 0;' cnf_tok
t flussab-aiger/src/token.rs 'let mut byte_len = 0;' 'let mut byte_len: usize = 0;' aig_tok
t flussab-aiger/src/ascii.rs 'let justice_property_count = self.header.justice_property_count;' 'let justice_property_count = self.header.justice_property_count; let _jpc2 = justice_property_count;' aig_ascii
t flussab-aiger/src/aig.rs 'let mut def = None;' 'let mut def: Option<AndGate<L>> = None;' aig_graph
t flussab/src/deferred_writer.rs 'let old_len = self.buf.len\(\);' 'let old_len: usize = self.buf.len();' core_write
t flussab-cnf/src/cnf.rs 'self.lit_buf.clear\(\);\n' 'self.lit_buf.clear();\n        let _n = self.clause_count;\n' cnf_parse
t flussab-btor2/src/token.rs 'let mut offset = 0;' 'let mut offset = 0usize;' btor_tok
# micro-refactorings (hour 19): all verify unchanged (status ok)
t flussab/src/deferred_reader.rs 'self\.pos_of_buf = self\.pos_of_buf\.wrapping_add\(self\.pos_in_buf\);\n(\s*)self\.mark_in_buf = self\.mark_in_buf\.wrapping_sub\(self\.pos_in_buf\);' 'self.mark_in_buf = self.mark_in_buf.wrapping_sub(self.pos_in_buf);\n\1self.pos_of_buf = self.pos_of_buf.wrapping_add(self.pos_in_buf);' core_read
t flussab/src/deferred_reader.rs 'let target_end = self\.pos_in_buf \+ self\.valid_len \+ self\.chunk_size;' 'let data_end = self.pos_in_buf + self.valid_len;\n        let target_end = data_end + self.chunk_size;' core_read
t flussab/src/text.rs 'offset \+ input\.request_byte_at_offset\(offset\)\.is_some\(\) as usize' 'if input.request_byte_at_offset(offset).is_some() { offset + 1 } else { offset }' text
t flussab-cnf/src/cnf.rs 'self\.clause_count != self\.clause_limit \|\| !self\.clause_limit_active' '!self.clause_limit_active || self.clause_count != self.clause_limit' cnf_parse
t flussab-aiger/src/token.rs 'offset \+= 1;' 'offset = offset + 1;' aig_tok
t flussab/src/deferred_writer.rs 'let new_len = old_len \+ len;' 'let new_len = len + old_len;' core_write
t flussab-aiger/src/aig.rs 'let mut def = None;' 'let mut def = None; let _keep = 0usize;' aig_graph
