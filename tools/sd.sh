#!/bin/bash
# builds the stand-in against /repo (or $1) in /tmp/wt/sd
R=${SD_REPO:-/repo}
mkdir -p /tmp/wt/sd && sed "s#@REPO@#$R#" /verif/standin/Cargo.toml.in > /tmp/wt/sd/Cargo.toml && rm -rf /tmp/wt/sd/src && cp -r /verif/standin/src /tmp/wt/sd/src && (cp $R/Cargo.lock /tmp/wt/sd/ 2>/dev/null || cp /repo/Cargo.lock /tmp/wt/sd/) && cd /tmp/wt/sd && CARGO_TARGET_DIR=${SD_TARGET:-/verif/standin/target} cargo build --release --offline 2>&1 | grep -E "^error" -A14 | head -${SD_LINES:-60}
