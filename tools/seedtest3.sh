#!/bin/bash
# usage: tools/seedtest3.sh <worktree dir> <prop> <A|B> [more props...]
# like seedtest.sh, but the check runs on a scratch copy of /repo HEAD + patch (VP_REPO), so several can run side by side and /repo stays untouched
WT=$1; P=$2; X=$3; shift 3; EXTRA="$@"
S=$WT/SEED/$X
[ -f $S/patch.diff ] || { echo "no patch $S/patch.diff"; exit 3; }
echo "=== seed $P/$X: $(grep -m1 '^+++' $S/patch.diff)"
if [ -z "$SKIP_CONFIRM" ]; then
  cd $WT && git checkout -q -- . && git apply --check $S/patch.diff || { echo "PATCH DOES NOT APPLY"; exit 3; }
  export CARGO_TARGET_DIR=$WT/target
  git apply $S/patch.diff
  T=$(cargo test --workspace --offline 2>&1 | grep -E "^test result" | grep -v " 0 failed" | wc -l)
  B=$(cargo build --workspace --offline 2>&1 | grep -c "^error")
  if [ -d $S/demo ]; then (cd $S/demo && timeout 600 cargo run --offline -q >$S/.demo_with.txt 2>&1); DW=$?; else DW=na; fi
  git checkout -q -- .
  if [ -d $S/demo ]; then (cd $S/demo && timeout 600 cargo run --offline -q >$S/.demo_without.txt 2>&1); DO=$?; else DO=na; fi
  echo "confirm: build_errors=$B failing_test_groups=$T demo_with_change_exit=$DW demo_without_exit=$DO"
  unset CARGO_TARGET_DIR
fi
[ -n "$SKIP_CHECK" ] && exit 0
D=$(mktemp -d /tmp/seedt3.XXXXXX)
(cd /repo && git archive HEAD) | tar xf - -C $D
(cd $D && patch -p1 -s < $S/patch.diff) || { echo "cannot apply to scratch"; rm -rf $D; exit 3; }
cd /verif
for Q in $P $EXTRA; do
  VP_STANDIN_TARGET=/tmp/wt/sdt_${SLOT:-9} VP_REPO=$D VP_GEN=$D/.gen VP_EVIDENCE=$D/.ev ./check $Q > $D/.out 2>&1; E=$?
  echo "check $Q exit=$E: $(grep -c VIOLATION $D/.out) violations; $(grep -m2 -E 'obligation|UNDECIDED' $D/.out | cut -c1-220 | tr '\n' '|')"
  cp $D/.out $S/.check_$Q.txt
done
rm -rf $D
