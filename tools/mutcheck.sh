#!/bin/sh
# usage: tools/mutcheck.sh <file relative to repo> <python-regex> <replacement> <property> [--replay]
# Applies one textual mutation to a scratch copy of /repo's sources and runs ./check <property> against it.
D=$(mktemp -d /tmp/mrepo.XXXXXX)
(cd /repo && tar cf - --exclude=target --exclude=.git .) | (cd $D && tar xf -)
python3 - "$D/$1" "$2" "$3" <<'PY'
import sys,re
p,pat,rep=sys.argv[1],sys.argv[2],sys.argv[3]
s=open(p).read()
n=len(re.findall(pat,s))
if n==0: print('MUTATION DID NOT MATCH'); sys.exit(3)
open(p,'w').write(re.sub(pat,rep,s,count=1))
print('mutated 1 of %d matches'%n)
PY
cd /verif && VP_REPO=$D ./check "$4" > /tmp/mutcheck.$$.out; echo "exit=$?"; cat /tmp/mutcheck.$$.out | cut -c1-400 | head -20
if [ "$5" = "--replay" ]; then
  R=$(grep -o 'replay=[^ ]*' /tmp/mutcheck.$$.out | head -1 | cut -d= -f2)
  [ -n "$R" ] && VP_REPO=$D ./check --replay "$R" | tail -8
fi
rm -rf $D /tmp/mutcheck.$$.out
