#!/bin/bash
# usage: tools/seed_regress.sh [ids...]   — applies each seeded change to a scratch copy of /repo HEAD and runs the property's check on it
# (VP_REPO/VP_GEN keep /repo and /verif/gen untouched, so this can run next to other work); JOBS=n runs n seeds side by side
cd /verif
IDS="$@"; [ -z "$IDS" ] && IDS=$(ls seeded)
one() {
  id=$1; slot=$2
  P=${id%-*}
  D=$(mktemp -d /tmp/seedreg.XXXXXX)
  (cd /repo && git archive HEAD) | tar xf - -C $D
  if ! (cd $D && patch -p1 -s --dry-run < /verif/seeded/$id/patch.diff >/dev/null 2>&1); then echo "$id: patch no longer applies (code changed by a fix)"; rm -rf $D; return; fi
  (cd $D && patch -p1 -s < /verif/seeded/$id/patch.diff)
  VP_STANDIN_TARGET=/tmp/wt/sdt_$slot VP_REPO=$D VP_GEN=$D/.gen VP_EVIDENCE=$D/.ev ./check $P > $D/.out 2>&1; E=$?
  echo "$id: exit=$E $(grep -c VIOLATION $D/.out) violations; $(grep -E 'obligation|UNDECIDED' $D/.out | cut -c1-150 | head -4 | tr '\n' '|')"
  rm -rf $D
}
export -f one
J=${JOBS:-4}
echo $IDS | tr ' ' '\n' | awk -v j=$J '{print $0, NR % j}' | xargs -P $J -L 1 bash -c 'one $0 $1'
