#!/usr/bin/env python3
"""Writes the current text of each loop head into the contract files (`loop N` -> `loop N /head/`) so that a loop contract stays
attached to its loop when other loops of the function appear or disappear. Only loops without a name are touched."""
import os, sys, re, tempfile
V = os.path.dirname(os.path.dirname(os.path.abspath(__file__)))
sys.path.insert(0, V)
from vp import gen as G, spec as S
modules, units = G.load_all()
edits = {}   # path -> {line no (1-based): new text}
seen = set()
tmp = tempfile.mkdtemp(prefix='vp-names-')
for un, u in units.items():
    ug = G.UnitGen(u, modules, G.load_rules(), G.load_type_map(), G.REPO)
    ug.select()
    ug.run_weave(tmp)
    for key, io in ug.weave_out.items():
        if key[1] != 'fn' or 'loop_heads' not in io:
            continue
        f = ug.fn_specs.get(key[0] + '::' + key[2])
        if f is None or ug.fn_modes.get(f.path) != 'verify' or f.path in seen:
            continue
        seen.add(f.path)
        heads = io['loop_heads']
        for n, lp in f.loops.items():
            if lp.anchor or n >= len(heads) or heads[n] == 'loop':
                continue
            path, ln = lp.src
            edits.setdefault(path, {})[ln] = heads[n]
for path, ed in edits.items():
    lines = open(path).read().split('\n')
    for ln, head in ed.items():
        l = lines[ln - 1]
        m = re.match(r'(\s*loop\s+\d+)\s*$', l)
        if m:
            lines[ln - 1] = '%s /%s/' % (m.group(1), head)
    open(path, 'w').write('\n'.join(lines))
    print(path, len(ed))
