#!/bin/bash
# usage: sdrun.sh <suite> [prop] [tier]
S=$1; P=${2:-all}; T=${3:-quick}
/usr/bin/time -f "%es %MKB" ${SD_EXE:-/verif/standin/target/release/vp-standin} $S $P $T 1 > /tmp/wt/sd/out.json 2>/tmp/wt/sd/err.txt; echo "$S $P exit=$? $(tail -1 /tmp/wt/sd/err.txt)"
python3 - <<PY
import json
try:
    d=json.load(open('/tmp/wt/sd/out.json'))
except Exception as e:
    print(open('/tmp/wt/sd/out.json').read()[:2000]); raise SystemExit
print(' inputs',d.get('distinct_inputs'),'runs',d.get('parser_runs'),'failures',len(d.get('failures',[])))
for x in d.get('failures',[])[:${SD_MAX:-12}]:
    print('   ',x['check'],'|',repr(x['input'])[:160],'|',x['replay'][:9],'|',x['detail'][:${SD_W:-400}])
PY
