#!/bin/sh
# usage: tools/mut.sh <file relative to repo> <python-regex> <replacement> <unit> [count]
# Applies one textual mutation to a scratch copy of /repo's sources and verifies a unit against it.
set -e
D=$(mktemp -d /tmp/mrepo.XXXXXX)
(cd /repo && tar cf - --exclude=target --exclude=.git .) | (cd $D && tar xf -)
python3 - "$D/$1" "$2" "$3" "${5:-1}" <<'PY'
import sys,re
p,pat,rep,cnt=sys.argv[1],sys.argv[2],sys.argv[3],int(sys.argv[4])
s=open(p).read()
n=len(re.findall(pat,s))
if n==0: print('MUTATION DID NOT MATCH'); sys.exit(3)
s2=re.sub(pat,rep,s,count=cnt)
open(p,'w').write(s2)
print('mutated %d of %d matches'%(min(cnt,n),n))
PY
cd /verif && VP_REPO=$D ./check --unit "$4" | cut -c1-300 | head -30
rm -rf $D
