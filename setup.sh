#!/bin/sh
# setup_cmd: build the framework from files on disk only (offline).
set -e
cd "$(dirname "$0")"
export CARGO_NET_OFFLINE=true
(cd weave && cargo build --release --offline 2>&1 | tail -2)
# the bounded BTOR2 stand-in is (re)built by the checks against the tree they examine; building it once here only warms the cargo cache
python3 -c "import sys; sys.path.insert(0, '.'); from vp import engines as E; exe, msg = E.build_standin(); print('standin', 'built' if exe else 'NOT built: ' + msg[-300:])" || true
verus --version | head -2
echo setup-ok
