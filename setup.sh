#!/bin/sh
# setup_cmd: build the framework from files on disk only (offline).
set -e
cd "$(dirname "$0")"
export CARGO_NET_OFFLINE=true
(cd weave && cargo build --release --offline 2>&1 | tail -2)
verus --version | head -2
echo setup-ok
