//! Declarative expression rewrite rules with metavariables.
//!
//! A rule is `ID: <pattern expr> => <replacement expr>`; identifiers that start with `__` are
//! metavariables and match any expression. Matching is structural on the syn tree for the
//! expression forms listed in `match_expr`; any other form matches only when its token text is
//! identical. Rules are applied bottom-up until nothing changes (bounded).

use proc_macro2::{TokenStream, TokenTree};
use quote::ToTokens;
use std::collections::HashMap;
use syn::Expr;

#[derive(Clone)]
pub struct Rule {
    pub id: String,
    pub pat: Expr,
    /// second statement of a two-statement pattern (`a ;; b => rep`)
    pub pat2: Option<Expr>,
    pub rep: TokenStream,
    pub text: String,
}

pub fn parse_rules(text: &str) -> Result<Vec<Rule>, String> {
    let mut rules = vec![];
    for line in text.lines() {
        let line = line.trim();
        if line.is_empty() || line.starts_with('#') {
            continue;
        }
        let (id, rest) = line.split_once(':').ok_or_else(|| format!("rule without id: {}", line))?;
        // `===>` (used for per-function substitutions) lets pattern and replacement contain `=>` themselves (match arms)
        let (pat, rep) = match rest.split_once("===>") {
            Some(x) => x,
            None => rest.split_once("=>").ok_or_else(|| format!("rule without =>: {}", line))?,
        };
        let (pat, pat2) = match pat.split_once(";;") {
            Some((a, b)) => (a, Some(b)),
            None => (pat, None),
        };
        let pat: Expr = syn::parse_str(pat.trim()).map_err(|e| format!("pattern of {}: {}", id, e))?;
        let pat2: Option<Expr> = match pat2 {
            Some(b) => Some(syn::parse_str(b.trim()).map_err(|e| format!("second pattern of {}: {}", id, e))?),
            None => None,
        };
        let rep: TokenStream = rep.trim().parse().map_err(|e| format!("replacement of {}: {:?}", id, e))?;
        rules.push(Rule { id: id.trim().to_string(), pat, pat2, rep, text: line.to_string() });
    }
    Ok(rules)
}

pub fn norm(ts: TokenStream) -> String {
    let mut s = String::new();
    fn go(ts: TokenStream, s: &mut String) {
        for tt in ts {
            match tt {
                TokenTree::Group(g) => {
                    let (o, c) = match g.delimiter() {
                        proc_macro2::Delimiter::Parenthesis => ("(", ")"),
                        proc_macro2::Delimiter::Brace => ("{", "}"),
                        proc_macro2::Delimiter::Bracket => ("[", "]"),
                        proc_macro2::Delimiter::None => ("", ""),
                    };
                    s.push_str(o);
                    go(g.stream(), s);
                    s.push_str(c);
                }
                TokenTree::Ident(i) => {
                    if s.ends_with(|c: char| c.is_alphanumeric() || c == '_') {
                        s.push(' ');
                    }
                    s.push_str(&i.to_string());
                }
                TokenTree::Literal(l) => {
                    if s.ends_with(|c: char| c.is_alphanumeric() || c == '_') {
                        s.push(' ');
                    }
                    s.push_str(&l.to_string());
                }
                TokenTree::Punct(p) => s.push(p.as_char()),
            }
        }
    }
    go(ts, &mut s);
    s
}

fn metavar(e: &Expr) -> Option<String> {
    if let Expr::Path(p) = e {
        if p.qself.is_none() && p.path.segments.len() == 1 {
            let s = p.path.segments[0].ident.to_string();
            if s.starts_with("__") && p.path.segments[0].arguments.is_none() {
                return Some(s);
            }
        }
    }
    None
}

fn strip_paren(e: &Expr) -> &Expr {
    match e {
        Expr::Paren(p) => strip_paren(&p.expr),
        Expr::Group(g) => strip_paren(&g.expr),
        _ => e,
    }
}

pub fn match_expr(pat: &Expr, e: &Expr, b: &mut HashMap<String, Expr>) -> bool {
    if let Some(mv) = metavar(pat) {
        if let Some(prev) = b.get(&mv) {
            return norm(prev.to_token_stream()) == norm(e.to_token_stream());
        }
        b.insert(mv, e.clone());
        return true;
    }
    let e = strip_paren(e);
    let pat = strip_paren(pat);
    match (pat, e) {
        (Expr::MethodCall(p), Expr::MethodCall(x)) => {
            p.method == x.method
                && p.args.len() == x.args.len()
                && norm(p.turbofish.to_token_stream()) == norm(x.turbofish.to_token_stream())
                && match_expr(&p.receiver, &x.receiver, b)
                && p.args.iter().zip(x.args.iter()).all(|(a, c)| match_expr(a, c, b))
        }
        (Expr::Call(p), Expr::Call(x)) => {
            p.args.len() == x.args.len() && match_expr(&p.func, &x.func, b) && p.args.iter().zip(x.args.iter()).all(|(a, c)| match_expr(a, c, b))
        }
        (Expr::Field(p), Expr::Field(x)) => norm(p.member.to_token_stream()) == norm(x.member.to_token_stream()) && match_expr(&p.base, &x.base, b),
        (Expr::Index(p), Expr::Index(x)) => match_expr(&p.expr, &x.expr, b) && match_expr(&p.index, &x.index, b),
        (Expr::Unary(p), Expr::Unary(x)) => norm(p.op.to_token_stream()) == norm(x.op.to_token_stream()) && match_expr(&p.expr, &x.expr, b),
        (Expr::Binary(p), Expr::Binary(x)) => {
            norm(p.op.to_token_stream()) == norm(x.op.to_token_stream()) && match_expr(&p.left, &x.left, b) && match_expr(&p.right, &x.right, b)
        }
        (Expr::Reference(p), Expr::Reference(x)) => p.mutability.is_some() == x.mutability.is_some() && match_expr(&p.expr, &x.expr, b),
        (Expr::Cast(p), Expr::Cast(x)) => norm(p.ty.to_token_stream()) == norm(x.ty.to_token_stream()) && match_expr(&p.expr, &x.expr, b),
        (Expr::Range(p), Expr::Range(x)) => {
            norm(p.limits.to_token_stream()) == norm(x.limits.to_token_stream())
                && match (&p.start, &x.start) {
                    (Some(a), Some(c)) => match_expr(a, c, b),
                    (None, None) => true,
                    _ => false,
                }
                && match (&p.end, &x.end) {
                    (Some(a), Some(c)) => match_expr(a, c, b),
                    (None, None) => true,
                    _ => false,
                }
        }
        (Expr::Try(p), Expr::Try(x)) => match_expr(&p.expr, &x.expr, b),
        (Expr::Closure(p), Expr::Closure(x)) => {
            // closures are compared literally, ignoring the ordinal marker the weaver put into the body
            let strip = |t: String| -> String {
                let mut out = String::new();
                let mut rest = t.as_str();
                while let Some(i) = rest.find("__vp_closure!(") {
                    out.push_str(&rest[..i]);
                    let after = &rest[i..];
                    match after.find(");") { Some(j) => rest = &after[j + 2..], None => rest = "" }
                }
                out.push_str(rest);
                // trailing commas (rustfmt style) and braces do not matter
                out.replace(",}", "}").replace(",)", ")").replace(",]", "]").replace("{", "").replace("}", "")
            };
            strip(norm(p.to_token_stream())) == strip(norm(x.to_token_stream()))
        }
        (Expr::Tuple(p), Expr::Tuple(x)) => p.elems.len() == x.elems.len() && p.elems.iter().zip(x.elems.iter()).all(|(a, c)| match_expr(a, c, b)),
        _ => norm(pat.to_token_stream()) == norm(e.to_token_stream()),
    }
}

/// Substitutes metavariables in the replacement token stream.
pub fn instantiate(rep: TokenStream, b: &HashMap<String, Expr>) -> TokenStream {
    let mut out = TokenStream::new();
    for tt in rep {
        match tt {
            TokenTree::Ident(ref i) => {
                let s = i.to_string();
                if let Some(e) = b.get(&s) {
                    // parenthesise anything that is not atomic
                    let atomic = matches!(
                        strip_paren(e),
                        Expr::Path(_) | Expr::Lit(_) | Expr::Field(_) | Expr::MethodCall(_) | Expr::Call(_) | Expr::Index(_) | Expr::Macro(_)
                    );
                    if atomic {
                        out.extend(e.to_token_stream());
                    } else {
                        let inner = e.to_token_stream();
                        out.extend(quote::quote!((#inner)));
                    }
                } else {
                    out.extend(std::iter::once(tt));
                }
            }
            TokenTree::Group(g) => {
                let inner = instantiate(g.stream(), b);
                let mut ng = proc_macro2::Group::new(g.delimiter(), inner);
                ng.set_span(g.span());
                out.extend(std::iter::once(TokenTree::Group(ng)));
            }
            _ => out.extend(std::iter::once(tt)),
        }
    }
    out
}

pub fn apply_rules_once(e: &Expr, rules: &[Rule]) -> Option<(Expr, String)> {
    for r in rules {
        if r.pat2.is_some() {
            continue;
        }
        let mut b = HashMap::new();
        if match_expr(&r.pat, e, &mut b) {
            let ts = instantiate(r.rep.clone(), &b);
            match syn::parse2::<Expr>(ts.clone()) {
                Ok(ne) => return Some((ne, r.id.clone())),
                Err(err) => {
                    eprintln!("weave: rule {} produced unparsable text `{}`: {}", r.id, ts, err);
                }
            }
        }
    }
    None
}

/// Two-statement rules: `s1; s2` (expression statements) -> one expression statement.
pub fn apply_stmt_rules(a: &Expr, b2: &Expr, rules: &[Rule]) -> Option<(Expr, String)> {
    for r in rules {
        if let Some(p2) = &r.pat2 {
            let mut b = HashMap::new();
            if match_expr(&r.pat, a, &mut b) && match_expr(p2, b2, &mut b) {
                let ts = instantiate(r.rep.clone(), &b);
                if let Ok(ne) = syn::parse2::<Expr>(ts) {
                    return Some((ne, r.id.clone()));
                }
            }
        }
    }
    None
}
