//! R9 (combinator inlining with beta reduction) and R10 (lambda lifting).
use crate::rewrite::Ctx;
use syn::Block;

pub fn rewrite_closures(_block: &mut Block, _cx: &mut Ctx) {}
