//! R9: a combinator applied to a closure literal is replaced by the combinator's own body (taken from the real
//! `flussab/src/parser.rs` on every run when it is a single `match self { .. }`, otherwise from
//! contracts/templates.json) with the closure beta-reduced. R10: a closure with `?`/`return` is lambda-lifted to a
//! named function declared in the contract file; the call replaces the closure invocation.

use crate::matcher::norm;
use crate::rewrite::Ctx;
use proc_macro2::{Span, TokenStream};
use quote::{quote, ToTokens};
use serde_json::{json, Value};
use std::collections::HashMap;
use syn::visit::Visit;
use syn::visit_mut::{self, VisitMut};
use syn::{Block, Expr, Stmt};

/// Templates: key = "<Kind>::<method>" (Kind in Parsed, Result, Option) -> (self ident, closure param ident, body expr)
pub struct Template {
    pub self_name: String,
    pub fn_param: Option<String>,
    pub body: Expr,
    pub source: String,
}

pub fn derive_templates(repo: &str, plan: &Value) -> HashMap<String, Template> {
    let mut out = HashMap::new();
    // 1. from the real parser.rs: impl<T, E> Parsed<T, E> methods whose body is exactly one `match self { .. }`
    let path = format!("{}/flussab/src/parser.rs", repo);
    if let Ok(src) = std::fs::read_to_string(&path) {
        if let Ok(file) = syn::parse_file(&src) {
            for it in &file.items {
                if let syn::Item::Impl(im) = it {
                    if im.trait_.is_some() {
                        continue;
                    }
                    let ty = norm(im.self_ty.to_token_stream());
                    if !ty.starts_with("Parsed<") {
                        continue;
                    }
                    for ii in &im.items {
                        if let syn::ImplItem::Fn(m) = ii {
                            let mut fn_param = None;
                            let mut n_typed = 0;
                            for a in m.sig.inputs.iter() {
                                if let syn::FnArg::Typed(pt) = a {
                                    n_typed += 1;
                                    if let syn::Pat::Ident(pi) = &*pt.pat {
                                        fn_param = Some(pi.ident.to_string());
                                    }
                                }
                            }
                            if n_typed > 1 {
                                continue;
                            }
                            if m.block.stmts.len() == 1 {
                                if let Stmt::Expr(Expr::Match(mm), None) = &m.block.stmts[0] {
                                    if norm(mm.expr.to_token_stream()) == "self" {
                                        out.insert(
                                            format!("Parsed::{}", m.sig.ident),
                                            Template { self_name: "self".into(), fn_param, body: Expr::Match(mm.clone()), source: format!("flussab/src/parser.rs:{}", m.sig.ident.span().start().line) },
                                        );
                                    }
                                }
                            }
                        }
                    }
                }
            }
        }
    }
    // 2. hand-written templates (std semantics of Result/Option; and_also/and_do which are not single matches)
    if let Some(m) = plan["templates"].as_object() {
        for (k, v) in m {
            if out.contains_key(k) {
                continue;
            }
            if let Ok(e) = syn::parse_str::<Expr>(v.as_str().unwrap_or("")) {
                out.insert(k.clone(), Template { self_name: "__recv".into(), fn_param: Some("__call".into()), body: e, source: "contracts/templates.json".into() });
            }
        }
    }
    out
}

const COMBINATORS: &[&str] = &[
    "or_give_up", "or_parse", "or_always_parse", "and_then", "and_also", "and_do", "map", "map_err", "unwrap_or_else", "ok_or_else", "map_or", "map_or_else", "or_else",
];

struct HasEarlyExit {
    found: bool,
}
impl<'ast> Visit<'ast> for HasEarlyExit {
    fn visit_expr_try(&mut self, _: &'ast syn::ExprTry) {
        self.found = true;
    }
    fn visit_expr_return(&mut self, _: &'ast syn::ExprReturn) {
        self.found = true;
    }
    fn visit_expr_closure(&mut self, _: &'ast syn::ExprClosure) {
        // nested closures have their own scope
    }
}

fn closure_ordinal(c: &syn::ExprClosure) -> Option<usize> {
    // body is `{ __vp_closure!(n); body }`
    if let Expr::Block(b) = &*c.body {
        if let Some(Stmt::Macro(sm)) = b.block.stmts.first() {
            if sm.mac.path.is_ident("__vp_closure") {
                return sm.mac.tokens.to_string().trim().parse().ok();
            }
        }
    }
    None
}

fn closure_inner_body(c: &syn::ExprClosure) -> Expr {
    if let Expr::Block(b) = &*c.body {
        if let Some(Stmt::Macro(sm)) = b.block.stmts.first() {
            if sm.mac.path.is_ident("__vp_closure") {
                let rest: Vec<Stmt> = b.block.stmts[1..].to_vec();
                // `{ marker; expr }` -> expr if single tail expression
                if rest.len() == 1 {
                    if let Stmt::Expr(e, None) = &rest[0] {
                        return e.clone();
                    }
                }
                return syn::parse_quote!({ #(#rest)* });
            }
        }
    }
    (*c.body).clone()
}

/// `let <pat> = <arg>;` statements for beta reduction, handling `&mut x` / `&x` patterns (R5).
fn bind(pat: &syn::Pat, arg: &Expr) -> Vec<Stmt> {
    match pat {
        syn::Pat::Wild(_) => vec![syn::parse_quote!(let _ = #arg;)],
        syn::Pat::Reference(r) => {
            // |&mut x| applied to `&mut e` -> let x = e;   otherwise let x = *arg;
            let inner = &r.pat;
            if let Expr::Reference(ar) = arg {
                let e = &ar.expr;
                vec![syn::parse_quote!(let #inner = #e;)]
            } else {
                vec![syn::parse_quote!(let #inner = *#arg;)]
            }
        }
        syn::Pat::Type(pt) => bind(&pt.pat, arg),
        p => vec![syn::parse_quote!(let #p = #arg;)],
    }
}

struct CallReplacer<'x> {
    fn_param: &'x str,
    closure: &'x syn::ExprClosure,
    lifted: Option<&'x Expr>, // if Some: callee path + leading captured args as a call expr `name(c1, c2)`
    count: usize,
}
impl<'x> VisitMut for CallReplacer<'x> {
    fn visit_expr_mut(&mut self, e: &mut Expr) {
        visit_mut::visit_expr_mut(self, e);
        if let Expr::Call(c) = e {
            if let Expr::Path(p) = &*c.func {
                if p.path.is_ident(self.fn_param) {
                    self.count += 1;
                    let args: Vec<Expr> = c.args.iter().cloned().collect();
                    if let Some(l) = self.lifted {
                        // name(captured..., args...)
                        if let Expr::Call(lc) = l {
                            let mut nc = lc.clone();
                            for a in args {
                                nc.args.push(a);
                            }
                            *e = Expr::Call(nc);
                        }
                    } else {
                        let mut stmts: Vec<Stmt> = vec![];
                        for (p, a) in self.closure.inputs.iter().zip(args.iter()) {
                            stmts.extend(bind(p, a));
                        }
                        let body = closure_inner_body(self.closure);
                        *e = if stmts.is_empty() { syn::parse_quote!({ #body }) } else { syn::parse_quote!({ #(#stmts)* #body }) };
                    }
                }
            }
        }
    }
}

struct SelfReplacer<'x> {
    name: &'x str,
    with: &'x Expr,
    paren: bool,
}
impl<'x> VisitMut for SelfReplacer<'x> {
    fn visit_expr_mut(&mut self, e: &mut Expr) {
        if let Expr::Path(p) = e {
            if p.path.is_ident(self.name) {
                let w = self.with;
                *e = if self.paren { syn::parse_quote!((#w)) } else { w.clone() };
                return;
            }
        }
        visit_mut::visit_expr_mut(self, e);
    }
}

struct R9<'c, 'a, 't> {
    cx: &'c mut Ctx<'a>,
    templates: &'t HashMap<String, Template>,
}

impl<'c, 'a, 't> VisitMut for R9<'c, 'a, 't> {
    fn visit_expr_mut(&mut self, e: &mut Expr) {
        // inner first: receivers and closure bodies are rewritten before the outer call
        visit_mut::visit_expr_mut(self, e);
        let mc = match e {
            Expr::MethodCall(mc) => mc,
            _ => return,
        };
        let method = mc.method.to_string();
        if !COMBINATORS.contains(&method.as_str()) || mc.args.len() != 1 {
            return;
        }
        let closure = match &mc.args[0] {
            Expr::Closure(c) => c.clone(),
            _ => return,
        };
        let ord = match closure_ordinal(&closure) {
            Some(n) => n,
            None => return,
        };
        let kind = self.cx.opts["sites"].get(ord.to_string()).and_then(|v| v.as_str())
            .or_else(|| self.cx.opts["sites"].get(&method).and_then(|v| v.as_str()))
            .or_else(|| self.cx.opts["sites"].get("*").and_then(|v| v.as_str()))
            .unwrap_or("Parsed").to_string();
        if kind == "keep" {
            return;
        }
        let key = format!("{}::{}", kind, method);
        let t = match self.templates.get(&key) {
            Some(t) => t,
            None => {
                self.cx.errors.push(format!("unsupported-construct: no inlining template for {} (closure #{})", key, ord));
                return;
            }
        };
        // lifted?
        let lift = self.cx.opts["lifts"].get(ord.to_string()).cloned();
        let mut early = HasEarlyExit { found: false };
        early.visit_expr(&closure_inner_body(&closure));
        let lifted_call: Option<Expr> = match &lift {
            Some(l) if !l.is_null() => {
                let name: syn::Expr = syn::parse_str(l["name"].as_str().unwrap()).expect("lift name");
                let caps: Vec<Expr> = captured_args(l["params"].as_str().unwrap_or(""));
                Some(syn::parse_quote!(#name(#(#caps),*)))
            }
            _ => None,
        };
        if early.found && lifted_call.is_none() {
            self.cx.errors.push(format!("unsupported-construct: closure #{} contains `?`/`return` and has no `lift` declaration", ord));
            return;
        }
        let fnp = t.fn_param.clone().unwrap_or_default();
        let mut body = t.body.clone();
        // the template's `self` first becomes a placeholder so that a `self` inside the closure is left alone
        let placeholder: Expr = syn::parse_quote!(__vp_recv);
        SelfReplacer { name: &t.self_name, with: &placeholder, paren: false }.visit_expr_mut(&mut body);
        let mut cr = CallReplacer { fn_param: &fnp, closure: &closure, lifted: lifted_call.as_ref(), count: 0 };
        cr.visit_expr_mut(&mut body);
        let recv = (*mc.receiver).clone();
        SelfReplacer { name: "__vp_recv", with: &recv, paren: true }.visit_expr_mut(&mut body);
        let line = mc.method.span().start().line;
        self.cx.log.push(json!({"rule": if lifted_call.is_some() { "R10" } else { "R9" }, "line": line,
            "what": format!("{} with closure #{}: body of the combinator ({}) inlined, closure {}", key, ord, t.source,
                if lifted_call.is_some() { "lifted to a named fn" } else { "beta-reduced" })}));
        *e = body;
    }
}

/// "input: &mut LineReader, lits: &mut Vec<L> ; lit: isize" -> captured argument expressions [input, lits]
fn captured_args(params: &str) -> Vec<Expr> {
    let caps = params.split(';').next().unwrap_or("");
    let mut out = vec![];
    for p in split_top_commas(caps) {
        let p = p.trim();
        if p.is_empty() {
            continue;
        }
        let (name, ty) = match p.split_once(':') {
            Some((n, t)) => (n.trim(), t.trim()),
            None => (p, ""),
        };
        // `name = expr : type` lets the contract file say how the captured value is passed (e.g. `&mut self.reader`)
        if let Some((n, ex)) = name.split_once('=') {
            let _ = n;
            if let Ok(e) = syn::parse_str::<Expr>(ex.trim()) {
                out.push(e);
                continue;
            }
        }
        let name = name.trim_start_matches("mut ").trim();
        let id = syn::Ident::new(name, Span::call_site());
        let _ = ty;
        out.push(syn::parse_quote!(#id));
    }
    out
}

pub fn split_top_commas(s: &str) -> Vec<String> {
    let mut out = vec![];
    let mut depth = 0i32;
    let mut cur = String::new();
    for ch in s.chars() {
        match ch {
            '<' | '(' | '[' => { depth += 1; cur.push(ch); }
            '>' | ')' | ']' => { depth -= 1; cur.push(ch); }
            ',' if depth == 0 => { out.push(std::mem::take(&mut cur)); }
            _ => cur.push(ch),
        }
    }
    if !cur.trim().is_empty() {
        out.push(cur);
    }
    out
}

pub fn rewrite_closures(block: &mut Block, cx: &mut Ctx) {
    let templates = derive_templates(cx.plan["repo"].as_str().unwrap_or("/repo"), cx.plan);
    R9 { cx, templates: &templates }.visit_block_mut(block);
}

/// Finds closure #n in a numbered block (for R10 extraction of the lifted function's body).
pub struct FindClosure {
    pub want: usize,
    pub found: Option<syn::ExprClosure>,
}
impl<'ast> Visit<'ast> for FindClosure {
    fn visit_expr_closure(&mut self, c: &'ast syn::ExprClosure) {
        if closure_ordinal(c) == Some(self.want) {
            self.found = Some(c.clone());
            return;
        }
        syn::visit::visit_expr_closure(self, c);
    }
}

pub fn closure_body_block(c: &syn::ExprClosure) -> Block {
    let e = closure_inner_body(c);
    match e {
        Expr::Block(b) if b.label.is_none() => b.block,
        other => syn::parse_quote!({ #other }),
    }
}

pub fn _unused(_: TokenStream) {
    let _ = quote!();
}
