//! weave: mechanical extraction of real items from /repo for single-file Verus runs.
//!
//! Input: a JSON plan (argv[1]) naming source files and the items wanted from each, with per-item
//! options. Output (stdout): JSON with, per item, the printed text (line by line, each line carrying
//! the source line of its first real token), the rewrite log and any errors. Everything that is not
//! covered by a stated rewrite rule is printed verbatim from the syn tree of the working-tree file.
//!
//! The rules are documented in DESIGN.md section 3.2; each application is logged with its rule id.

mod closures;
mod matcher;
mod printer;
mod rewrite;

use serde_json::{json, Value};
use std::fs;

fn main() {
    let args: Vec<String> = std::env::args().collect();
    if args.len() < 2 {
        eprintln!("usage: weave plan.json");
        std::process::exit(2);
    }
    let plan: Value = serde_json::from_str(&fs::read_to_string(&args[1]).expect("plan")).expect("plan json");
    let repo = plan["repo"].as_str().unwrap_or("/repo").to_string();
    let rules_text = plan["rules"].as_str().unwrap_or("").to_string();
    let rules = match matcher::parse_rules(&rules_text) {
        Ok(r) => r,
        Err(e) => {
            println!("{}", json!({"fatal": format!("rules: {}", e)}));
            std::process::exit(2);
        }
    };
    let mut out_files = vec![];
    for fp in plan["files"].as_array().unwrap() {
        let path = fp["path"].as_str().unwrap();
        let full = format!("{}/{}", repo, path);
        let src = match fs::read_to_string(&full) {
            Ok(s) => s,
            Err(e) => {
                out_files.push(json!({"path": path, "fatal": format!("cannot read {}: {}", full, e)}));
                continue;
            }
        };
        let mut file = match syn::parse_file(&src) {
            Ok(f) => f,
            Err(e) => {
                out_files.push(json!({"path": path, "fatal": format!("parse error: {}", e)}));
                continue;
            }
        };
        let expanded = rewrite::expand_item_macros(&mut file);
        let mut items_out = vec![];
        for ip in fp["items"].as_array().unwrap() {
            items_out.push(extract_item(&file, ip, &rules, &plan));
        }
        // audit: list every fn in the file (path + whether it has unsafe, closures) for the closure check
        let mut audit = rewrite::Audit::default();
        syn::visit::Visit::visit_file(&mut audit, &file);
        out_files.push(json!({"path": path, "items": items_out, "all_fns": audit.fns, "macro_expansions": expanded}));
    }
    println!("{}", serde_json::to_string(&json!({"files": out_files})).unwrap());
}

/// Locates an item by its plan name and prints it after rewriting.
fn extract_item(file: &syn::File, ip: &Value, rules: &[matcher::Rule], plan: &Value) -> Value {
    let kind = ip["kind"].as_str().unwrap_or("fn");
    let name = ip["name"].as_str().unwrap();
    let opts = &ip["opts"];
    let r = match kind {
        "fn" => rewrite::extract_fn(file, name, opts, rules, plan),
        "struct" | "enum" | "const" | "type" | "trait" | "macro_expand" => rewrite::extract_other(file, kind, name, opts, rules, plan),
        _ => Err(format!("unknown item kind {}", kind)),
    };
    match r {
        Ok(mut v) => {
            v["name"] = json!(name);
            v["kind"] = json!(kind);
            v
        }
        Err(e) => json!({"name": name, "kind": kind, "error": e}),
    }
}

