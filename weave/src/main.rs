fn main(){}
