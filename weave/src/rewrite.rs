//! Item lookup and the structural rewrite rules (DESIGN.md 3.2).

use crate::matcher::{self, norm, Rule};
use crate::printer::{lines_json, one_line, print_lines};
use proc_macro2::{Span, TokenStream, TokenTree};
use quote::{quote, ToTokens};
use serde_json::{json, Value};
use syn::visit::Visit;
use syn::visit_mut::{self, VisitMut};
use syn::{Block, Expr, Stmt};

// ------------------------------------------------------------------------------------------ audit

#[derive(Default)]
pub struct Audit {
    pub fns: Vec<Value>,
    ctx: Vec<String>,
}

impl<'ast> Visit<'ast> for Audit {
    fn visit_item_impl(&mut self, i: &'ast syn::ItemImpl) {
        let ty = norm(i.self_ty.to_token_stream());
        let tr = i.trait_.as_ref().map(|t| norm(t.1.to_token_stream()));
        self.ctx.push(match tr {
            Some(t) => format!("<{} as {}>", ty, t),
            None => ty,
        });
        syn::visit::visit_item_impl(self, i);
        self.ctx.pop();
    }
    fn visit_item_trait(&mut self, i: &'ast syn::ItemTrait) {
        self.ctx.push(i.ident.to_string());
        syn::visit::visit_item_trait(self, i);
        self.ctx.pop();
    }
    fn visit_item_mod(&mut self, i: &'ast syn::ItemMod) {
        if !cfg_true(&i.attrs) {
            return;
        }
        self.ctx.push(format!("mod {}", i.ident));
        syn::visit::visit_item_mod(self, i);
        self.ctx.pop();
    }
    fn visit_item_fn(&mut self, i: &'ast syn::ItemFn) {
        if cfg_true(&i.attrs) {
            self.record(&i.sig, Some(&i.block));
        }
    }
    fn visit_impl_item_fn(&mut self, i: &'ast syn::ImplItemFn) {
        if cfg_true(&i.attrs) {
            self.record(&i.sig, Some(&i.block));
        }
    }
    fn visit_trait_item_fn(&mut self, i: &'ast syn::TraitItemFn) {
        self.record(&i.sig, i.default.as_ref());
    }
}

impl Audit {
    fn record(&mut self, sig: &syn::Signature, block: Option<&Block>) {
        let mut path = self.ctx.join("::");
        if !path.is_empty() {
            path.push_str("::");
        }
        path.push_str(&sig.ident.to_string());
        let text = block.map(|b| norm(b.to_token_stream())).unwrap_or_default();
        let mut calls = CallCollector::default();
        if let Some(b) = block {
            calls.visit_block(b);
        }
        self.fns.push(json!({
            "path": path,
            "line": sig.ident.span().start().line,
            "unsafe_fn": sig.unsafety.is_some(),
            "has_unsafe": text.contains("unsafe{"),
            "has_body": block.is_some(),
            "calls": calls.names,
            "constructs": calls.constructs,
        }));
    }
}

#[derive(Default)]
struct CallCollector {
    names: Vec<String>,
    constructs: Vec<String>,
}
impl<'ast> Visit<'ast> for CallCollector {
    fn visit_expr_method_call(&mut self, i: &'ast syn::ExprMethodCall) {
        let n = format!(".{}", i.method);
        if !self.names.contains(&n) {
            self.names.push(n);
        }
        syn::visit::visit_expr_method_call(self, i);
    }
    fn visit_expr_call(&mut self, i: &'ast syn::ExprCall) {
        if let Expr::Path(p) = &*i.func {
            let n = norm(p.to_token_stream());
            if !self.names.contains(&n) {
                self.names.push(n);
            }
        }
        syn::visit::visit_expr_call(self, i);
    }
    fn visit_expr_struct(&mut self, i: &'ast syn::ExprStruct) {
        let n = norm(i.path.to_token_stream());
        if !self.constructs.contains(&n) {
            self.constructs.push(n);
        }
        syn::visit::visit_expr_struct(self, i);
    }
}

// ------------------------------------------------------------------------------------------ R21: item macros

/// Expands item-level invocations of single-arm `macro_rules!` macros whose parameters are `$x:ty` / `$x:ident` /
/// `$x:expr` fragments, by token substitution of the macro's own body. Returns a log of the expansions.
pub fn expand_item_macros(file: &mut syn::File) -> Vec<Value> {
    use proc_macro2::Delimiter;
    let mut defs: std::collections::HashMap<String, (Vec<String>, TokenStream)> = Default::default();
    for it in &file.items {
        if let syn::Item::Macro(m) = it {
            if m.mac.path.is_ident("macro_rules") {
                if let Some(name) = &m.ident {
                    // body: ( $a:ty , $b:ty ) => { ... } ;
                    let toks: Vec<TokenTree> = m.mac.tokens.clone().into_iter().collect();
                    if toks.len() >= 4 {
                        if let (TokenTree::Group(pg), TokenTree::Group(bg)) = (&toks[0], &toks[3]) {
                            let mut params = vec![];
                            let pt: Vec<TokenTree> = pg.stream().into_iter().collect();
                            let mut i = 0;
                            while i + 3 < pt.len() + 1 {
                                if let (Some(TokenTree::Punct(d)), Some(TokenTree::Ident(n))) = (pt.get(i), pt.get(i + 1)) {
                                    if d.as_char() == '$' {
                                        params.push(n.to_string());
                                        i += 4; // $ name : frag
                                        if let Some(TokenTree::Punct(c)) = pt.get(i) {
                                            if c.as_char() == ',' {
                                                i += 1;
                                            }
                                        }
                                        continue;
                                    }
                                }
                                break;
                            }
                            let single_arm = toks.len() <= 5;
                            if single_arm && !params.is_empty() && bg.delimiter() == Delimiter::Brace {
                                defs.insert(name.to_string(), (params, bg.stream()));
                            }
                        }
                    }
                }
            }
        }
    }
    fn subst(ts: TokenStream, map: &std::collections::HashMap<String, TokenStream>) -> TokenStream {
        let toks: Vec<TokenTree> = ts.into_iter().collect();
        let mut out = TokenStream::new();
        let mut i = 0;
        while i < toks.len() {
            if let TokenTree::Punct(p) = &toks[i] {
                if p.as_char() == '$' {
                    if let Some(TokenTree::Ident(n)) = toks.get(i + 1) {
                        if let Some(r) = map.get(&n.to_string()) {
                            out.extend(r.clone());
                            i += 2;
                            continue;
                        }
                    }
                }
            }
            match &toks[i] {
                TokenTree::Group(g) => {
                    let mut ng = proc_macro2::Group::new(g.delimiter(), subst(g.stream(), map));
                    ng.set_span(g.span());
                    out.extend(std::iter::once(TokenTree::Group(ng)));
                }
                t => out.extend(std::iter::once(t.clone())),
            }
            i += 1;
        }
        out
    }
    let mut log = vec![];
    let mut new_items = vec![];
    for it in &file.items {
        if let syn::Item::Macro(m) = it {
            if let Some(id) = m.mac.path.get_ident() {
                if let Some((params, body)) = defs.get(&id.to_string()) {
                    let args = split_commas(m.mac.tokens.clone());
                    if args.len() == params.len() {
                        let map: std::collections::HashMap<String, TokenStream> = params.iter().cloned().zip(args.into_iter()).collect();
                        let ts = subst(body.clone(), &map);
                        if let Ok(f) = syn::parse2::<syn::File>(ts) {
                            log.push(json!({"rule": "R21", "line": id.span().start().line, "what": format!("{}!({}) expanded from its macro_rules! body", id, norm(m.mac.tokens.clone()))}));
                            new_items.extend(f.items);
                        }
                    }
                }
            }
        }
    }
    file.items.extend(new_items);
    log
}

// ------------------------------------------------------------------------------------------ cfg (R22)

fn cfg_eval(ts: TokenStream) -> bool {
    // grammar: ident | ident = "lit" | any(..) | all(..) | not(..)
    let toks: Vec<TokenTree> = ts.into_iter().collect();
    if toks.is_empty() {
        return true;
    }
    match &toks[0] {
        TokenTree::Ident(id) => {
            let name = id.to_string();
            if toks.len() >= 2 {
                if let TokenTree::Group(g) = &toks[1] {
                    let parts = split_commas(g.stream());
                    return match name.as_str() {
                        "any" => parts.into_iter().any(cfg_eval),
                        "all" => parts.into_iter().all(cfg_eval),
                        "not" => !parts.into_iter().all(cfg_eval),
                        _ => false,
                    };
                }
                if toks.len() >= 3 {
                    let val = toks[2].to_string();
                    return match name.as_str() {
                        "target_pointer_width" => val == "\"64\"",
                        _ => false,
                    };
                }
            }
            match name.as_str() {
                "test" | "kani" | "miri" | "doc" => false,
                "debug_assertions" => true,
                _ => false,
            }
        }
        _ => false,
    }
}

fn split_commas(ts: TokenStream) -> Vec<TokenStream> {
    let mut out = vec![];
    let mut cur = TokenStream::new();
    for tt in ts {
        if let TokenTree::Punct(p) = &tt {
            if p.as_char() == ',' {
                out.push(std::mem::take(&mut cur));
                continue;
            }
        }
        cur.extend(std::iter::once(tt));
    }
    if !cur.is_empty() {
        out.push(cur);
    }
    out
}

pub fn cfg_true(attrs: &[syn::Attribute]) -> bool {
    for a in attrs {
        if a.path().is_ident("cfg") {
            if let syn::Meta::List(l) = &a.meta {
                if !cfg_eval(l.tokens.clone()) {
                    return false;
                }
            }
        }
    }
    true
}

// ------------------------------------------------------------------------------------------ attribute / lifetime stripping (R1, R2)

/// Token-level removal of `#[...]` and `#![...]`.
fn strip_attr_tokens(ts: TokenStream) -> TokenStream {
    let toks: Vec<TokenTree> = ts.into_iter().collect();
    let mut out = TokenStream::new();
    let mut i = 0;
    while i < toks.len() {
        if let TokenTree::Punct(p) = &toks[i] {
            if p.as_char() == '#' {
                let mut j = i + 1;
                if let Some(TokenTree::Punct(q)) = toks.get(j) {
                    if q.as_char() == '!' {
                        j += 1;
                    }
                }
                if let Some(TokenTree::Group(g)) = toks.get(j) {
                    if g.delimiter() == proc_macro2::Delimiter::Bracket {
                        i = j + 1;
                        continue;
                    }
                }
            }
        }
        match &toks[i] {
            TokenTree::Group(g) => {
                let mut ng = proc_macro2::Group::new(g.delimiter(), strip_attr_tokens(g.stream()));
                ng.set_span(g.span());
                out.extend(std::iter::once(TokenTree::Group(ng)));
            }
            t => out.extend(std::iter::once(t.clone())),
        }
        i += 1;
    }
    out
}

struct StripLifetimes;
impl VisitMut for StripLifetimes {
    fn visit_generics_mut(&mut self, g: &mut syn::Generics) {
        let params: Vec<_> = g.params.iter().filter(|p| !matches!(p, syn::GenericParam::Lifetime(_))).cloned().collect();
        g.params = params.into_iter().collect();
        if g.params.is_empty() {
            g.lt_token = None;
            g.gt_token = None;
        }
        if let Some(w) = &mut g.where_clause {
            let preds: Vec<_> = w.predicates.iter().filter(|p| !matches!(p, syn::WherePredicate::Lifetime(_))).cloned().collect();
            w.predicates = preds.into_iter().collect();
        }
        visit_mut::visit_generics_mut(self, g);
    }
    fn visit_path_arguments_mut(&mut self, a: &mut syn::PathArguments) {
        if let syn::PathArguments::AngleBracketed(ab) = a {
            let args: Vec<_> = ab.args.iter().filter(|p| !matches!(p, syn::GenericArgument::Lifetime(_))).cloned().collect();
            ab.args = args.into_iter().collect();
            if ab.args.is_empty() {
                *a = syn::PathArguments::None;
                return;
            }
        }
        visit_mut::visit_path_arguments_mut(self, a);
    }
    fn visit_type_reference_mut(&mut self, r: &mut syn::TypeReference) {
        r.lifetime = None;
        visit_mut::visit_type_reference_mut(self, r);
    }
    fn visit_receiver_mut(&mut self, r: &mut syn::Receiver) {
        if let Some((_, lt)) = &mut r.reference {
            *lt = None;
        }
        visit_mut::visit_receiver_mut(self, r);
    }
    fn visit_type_trait_object_mut(&mut self, t: &mut syn::TypeTraitObject) {
        let b: Vec<_> = t.bounds.iter().filter(|b| !matches!(b, syn::TypeParamBound::Lifetime(_))).cloned().collect();
        t.bounds = b.into_iter().collect();
        visit_mut::visit_type_trait_object_mut(self, t);
    }
    fn visit_type_impl_trait_mut(&mut self, t: &mut syn::TypeImplTrait) {
        let b: Vec<_> = t.bounds.iter().filter(|b| !matches!(b, syn::TypeParamBound::Lifetime(_))).cloned().collect();
        t.bounds = b.into_iter().collect();
        visit_mut::visit_type_impl_trait_mut(self, t);
    }
}

struct TypeMap<'a> {
    map: &'a [(String, syn::Type)],
    log: Vec<Value>,
}
impl<'a> VisitMut for TypeMap<'a> {
    fn visit_type_mut(&mut self, t: &mut syn::Type) {
        let n = norm(t.to_token_stream());
        for (k, v) in self.map {
            if &n == k {
                self.log.push(json!({"rule": "R11", "what": format!("type {} -> {}", k, norm(v.to_token_stream()))}));
                *t = v.clone();
                return;
            }
        }
        visit_mut::visit_type_mut(self, t);
    }
}

fn type_map_of(plan: &Value) -> Result<Vec<(String, syn::Type)>, String> {
    let mut v = vec![];
    if let Some(m) = plan["type_map"].as_array() {
        for e in m {
            let k = e[0].as_str().unwrap();
            let kt: syn::Type = syn::parse_str(k).map_err(|e| format!("type_map key {}: {}", k, e))?;
            let t: syn::Type = syn::parse_str(e[1].as_str().unwrap()).map_err(|e| format!("type_map value: {}", e))?;
            v.push((norm(kt.to_token_stream()), t));
        }
    }
    Ok(v)
}

// ------------------------------------------------------------------------------------------ item lookup

pub struct FoundFn {
    pub impl_generics: Option<syn::Generics>,
    pub self_ty: Option<syn::Type>,
    pub trait_path: Option<syn::Path>,
    pub in_trait_decl: Option<syn::Ident>,
    pub vis: String,
    pub sig: syn::Signature,
    pub block: Option<Block>,
}

fn last_ident_of_type(t: &syn::Type) -> Option<String> {
    match t {
        syn::Type::Path(p) => p.path.segments.last().map(|s| s.ident.to_string()),
        syn::Type::Reference(r) => last_ident_of_type(&r.elem),
        _ => None,
    }
}

/// name forms: `f`, `Type::f`, `<Type as Trait>::f`, `trait Trait::f`; an optional `mod m::` prefix
/// selects an inline module.
pub fn find_fn(items: &[syn::Item], name: &str) -> Result<FoundFn, String> {
    let name = name.trim();
    if let Some(rest) = name.strip_prefix("mod ") {
        let (m, rest) = rest.split_once("::").ok_or("bad mod path")?;
        for it in items {
            if let syn::Item::Mod(md) = it {
                if md.ident == m {
                    if let Some((_, its)) = &md.content {
                        return find_fn(its, rest);
                    }
                }
            }
        }
        return Err(format!("module {} not found", m));
    }
    let mut found: Vec<FoundFn> = vec![];
    if let Some(rest) = name.strip_prefix('<') {
        // <Type as Trait>::f
        let (inner, f) = rest.split_once(">::").ok_or("bad qualified name")?;
        let (ty, tr) = inner.split_once(" as ").ok_or("bad qualified name")?;
        let tyn = norm(ty.parse::<TokenStream>().map_err(|e| e.to_string())?);
        let trn = tr.trim();
        for it in items {
            if let syn::Item::Impl(im) = it {
                if !cfg_true(&im.attrs) {
                    continue;
                }
                if let Some((_, path, _)) = &im.trait_ {
                    let mut st = (*im.self_ty).clone();
                    StripLifetimes.visit_type_mut(&mut st);
                    let mut path_nl = path.clone();
                    StripLifetimes.visit_path_mut(&mut path_nl);
                    let trait_matches = if trn.contains('<') {
                        trn.parse::<TokenStream>().map(|t| norm(t) == norm(path_nl.to_token_stream())).unwrap_or(false)
                    } else {
                        path.segments.last().map(|s| s.ident.to_string()).as_deref() == Some(trn)
                    };
                    if trait_matches && norm(st.to_token_stream()) == tyn {
                        for ii in &im.items {
                            if let syn::ImplItem::Fn(m) = ii {
                                if m.sig.ident == f && cfg_true(&m.attrs) {
                                    found.push(FoundFn {
                                        impl_generics: Some(im.generics.clone()),
                                        self_ty: Some((*im.self_ty).clone()),
                                        trait_path: Some(path.clone()),
                                        in_trait_decl: None,
                                        vis: "".into(),
                                        sig: m.sig.clone(),
                                        block: Some(m.block.clone()),
                                    });
                                }
                            }
                        }
                    }
                }
            }
        }
    } else if let Some((ty, f)) = name.rsplit_once("::") {
        for it in items {
            match it {
                syn::Item::Impl(im) if im.trait_.is_none() && cfg_true(&im.attrs) => {
                    if last_ident_of_type(&im.self_ty).as_deref() == Some(ty) {
                        for ii in &im.items {
                            if let syn::ImplItem::Fn(m) = ii {
                                if m.sig.ident == f && cfg_true(&m.attrs) {
                                    found.push(FoundFn {
                                        impl_generics: Some(im.generics.clone()),
                                        self_ty: Some((*im.self_ty).clone()),
                                        trait_path: None,
                                        in_trait_decl: None,
                                        vis: vis_str(&m.vis),
                                        sig: m.sig.clone(),
                                        block: Some(m.block.clone()),
                                    });
                                }
                            }
                        }
                    }
                }
                syn::Item::Trait(tr) if tr.ident == ty && cfg_true(&tr.attrs) => {
                    for ti in &tr.items {
                        if let syn::TraitItem::Fn(m) = ti {
                            if m.sig.ident == f {
                                found.push(FoundFn {
                                    impl_generics: Some(tr.generics.clone()),
                                    self_ty: None,
                                    trait_path: None,
                                    in_trait_decl: Some(tr.ident.clone()),
                                    vis: "".into(),
                                    sig: m.sig.clone(),
                                    block: m.default.clone(),
                                });
                            }
                        }
                    }
                }
                _ => {}
            }
        }
    } else {
        for it in items {
            if let syn::Item::Fn(f) = it {
                if f.sig.ident == name && cfg_true(&f.attrs) {
                    found.push(FoundFn {
                        impl_generics: None,
                        self_ty: None,
                        trait_path: None,
                        in_trait_decl: None,
                        vis: vis_str(&f.vis),
                        sig: f.sig.clone(),
                        block: Some((*f.block).clone()),
                    });
                }
            }
        }
    }
    match found.len() {
        0 => Err(format!("lost anchor: function `{}` not found in the working tree", name)),
        1 => Ok(found.pop().unwrap()),
        n => Err(format!("ambiguous: {} functions named `{}`", n, name)),
    }
}

fn vis_str(v: &syn::Visibility) -> String {
    match v {
        syn::Visibility::Inherited => "".into(),
        _ => "pub".into(),
    }
}

// ------------------------------------------------------------------------------------------ body rewriting

pub struct Ctx<'a> {
    pub rules: &'a [Rule],
    pub opts: &'a Value,
    pub plan: &'a Value,
    pub log: Vec<Value>,
    pub errors: Vec<String>,
    pub loops: usize,
    pub closures: usize,
    pub dasserts: usize,
    pub loop_heads: Vec<String>,
}

impl<'a> Ctx<'a> {
    fn logr(&mut self, rule: &str, span: Span, what: String) {
        self.log.push(json!({"rule": rule, "line": span.start().line, "what": what}));
    }
}

fn marker_stmt(name: &str, arg: &str) -> Stmt {
    let id = syn::Ident::new(name, Span::call_site());
    let a: TokenStream = arg.parse().unwrap();
    syn::parse2::<Stmt>(quote!(#id!(#a);)).unwrap()
}

/// Normalised text of a statement with all markers removed (for anchor matching).
fn stmt_text(s: &Stmt) -> String {
    let t = norm(s.to_token_stream());
    strip_markers(&t)
}

fn strip_markers(t: &str) -> String {
    let mut out = String::new();
    let mut rest = t;
    while let Some(i) = rest.find("__vp_") {
        out.push_str(&rest[..i]);
        let after = &rest[i..];
        // __vp_name!(...);
        if let Some(j) = after.find(");") {
            rest = &after[j + 2..];
        } else {
            rest = "";
        }
    }
    out.push_str(rest);
    out
}

// --- pass 1: number loops / closures / debug_asserts in source order

struct Numberer<'c, 'a> {
    cx: &'c mut Ctx<'a>,
}
const ETA_METHODS: &[&str] = &["map", "map_err", "and_then", "or_parse", "or_always_parse", "or_give_up"];

impl<'c, 'a> VisitMut for Numberer<'c, 'a> {
    fn visit_expr_mut(&mut self, e: &mut Expr) {
        // R9b: a path (function item / enum constructor) passed to a combinator is eta-expanded into a closure literal
        if let Expr::MethodCall(mc) = e {
            if ETA_METHODS.contains(&mc.method.to_string().as_str()) && mc.args.len() == 1 {
                if let Expr::Path(p) = &mc.args[0] {
                    let p = p.clone();
                    let line = mc.method.span().start().line;
                    self.cx.log.push(json!({"rule": "R9", "line": line, "what": format!("function value {} passed to .{}() eta-expanded", one_line(p.to_token_stream()), mc.method)}));
                    mc.args[0] = syn::parse_quote!(|__vp_eta| #p(__vp_eta));
                }
            }
        }
        match e {
            Expr::While(w) => {
                let n = self.cx.loops;
                self.cx.loops += 1;
                let c = &w.cond;
                self.cx.loop_heads.push(norm(quote!(while #c)));
                w.body.stmts.insert(0, marker_stmt("__vp_loop", &n.to_string()));
            }
            Expr::Loop(w) => {
                let n = self.cx.loops;
                self.cx.loops += 1;
                self.cx.loop_heads.push("loop".to_string());
                w.body.stmts.insert(0, marker_stmt("__vp_loop", &n.to_string()));
            }
            Expr::ForLoop(w) => {
                let n = self.cx.loops;
                self.cx.loops += 1;
                let (pt, ex) = (&w.pat, &w.expr);
                self.cx.loop_heads.push(norm(quote!(for #pt in #ex)));
                w.body.stmts.insert(0, marker_stmt("__vp_loop", &n.to_string()));
            }
            Expr::Closure(c) => {
                let n = self.cx.closures;
                self.cx.closures += 1;
                // tag the closure by wrapping its body: || { __vp_closure!(n); body }
                let body = &c.body;
                let m = marker_stmt("__vp_closure", &n.to_string());
                let nb: Expr = syn::parse2(quote!({ #m #body })).unwrap();
                c.body = Box::new(nb);
            }
            _ => {}
        }
        visit_mut::visit_expr_mut(self, e);
    }
}

// --- loops named by their head
/// actual ordinal -> contract label. Named contract loops claim the loop whose head starts with their text (the one at their own
/// ordinal first, else the first unclaimed match); the remaining loops keep their ordinal when it is free and otherwise get a
/// label no contract uses. Returns also the named contract loops for which no loop was found.
fn match_loops(heads: &[String], anchors: &serde_json::Map<String, Value>) -> (Vec<usize>, Vec<usize>) {
    let n = heads.len();
    let mut label_of: Vec<Option<usize>> = vec![None; n];
    let mut vanished = vec![];
    let mut named: Vec<(usize, String)> = anchors.iter().filter_map(|(k, v)| Some((k.parse::<usize>().ok()?, v.as_str()?.to_string()))).collect();
    named.sort();
    let normalize = |s: &str| -> String { match s.parse::<TokenStream>() { Ok(ts) => norm(ts), Err(_) => s.chars().filter(|c| !c.is_whitespace()).collect() } };
    // pass 1: a named loop whose own ordinal matches keeps it
    let mut pending = vec![];
    for (label, a) in named.iter() {
        let a = normalize(a);
        if *label < n && label_of[*label].is_none() && heads[*label].starts_with(&a) {
            label_of[*label] = Some(*label);
        } else {
            pending.push((*label, a));
        }
    }
    // pass 2: first unclaimed loop with a matching head
    for (label, a) in pending {
        match (0..n).find(|&i| label_of[i].is_none() && heads[i].starts_with(&a)) {
            Some(i) => label_of[i] = Some(label),
            None => vanished.push(label),
        }
    }
    // pass 3: the head of a named loop was edited in place: the loop at its own ordinal, if nobody else claimed it, is still that loop
    let mut still_vanished = vec![];
    for label in vanished {
        if label < n && label_of[label].is_none() {
            label_of[label] = Some(label);
        } else {
            still_vanished.push(label);
        }
    }
    let vanished = still_vanished;
    let used: Vec<usize> = label_of.iter().flatten().cloned().collect();
    let named_labels: Vec<usize> = named.iter().map(|(l, _)| *l).collect();
    let mut out = vec![];
    for i in 0..n {
        out.push(match label_of[i] {
            Some(l) => l,
            None => if !used.contains(&i) && !named_labels.contains(&i) { i } else { 5000 + i },
        });
    }
    (out, vanished)
}
struct RelabelLoops<'x> { map: &'x [usize] }
impl<'x> VisitMut for RelabelLoops<'x> {
    fn visit_block_mut(&mut self, b: &mut Block) {
        if let Some(first) = b.stmts.first_mut() {
            let s = norm(first.to_token_stream());
            if let Some(rest) = s.strip_prefix("__vp_loop!(") {
                if let Some(num) = rest.strip_suffix(");") {
                    if let Ok(k) = num.parse::<usize>() {
                        if k < self.map.len() && self.map[k] != k {
                            *first = marker_stmt("__vp_loop", &self.map[k].to_string());
                        }
                    }
                }
            }
        }
        visit_mut::visit_block_mut(self, b);
    }
}

// --- anchors

struct AnchorFinder<'x> {
    anchor: &'x str,
    block_no: usize,
    cands: Vec<(usize, usize)>, // (block_no, idx) of innermost statements containing the anchor, in source order
}
impl<'x> VisitMut for AnchorFinder<'x> {
    fn visit_block_mut(&mut self, b: &mut Block) {
        let me = self.block_no;
        self.block_no += 1;
        for (i, s) in b.stmts.iter_mut().enumerate() {
            let before = self.cands.len();
            let t = stmt_text(s);
            self.visit_stmt_mut(s);
            let t_nospace: String = t.chars().filter(|c| !c.is_whitespace()).collect();
            let a_nospace: String = self.anchor.chars().filter(|c| !c.is_whitespace()).collect();
            if self.cands.len() == before && (t.contains(self.anchor) || t_nospace.contains(&a_nospace)) {
                self.cands.push((me, i));
            }
        }
    }
}
struct AnchorInserter {
    target_block: usize,
    idx: usize,
    after: bool,
    scrut: bool,
    force_unit: bool,
    marker: Stmt,
    block_no: usize,
    done: bool,
}
impl VisitMut for AnchorInserter {
    fn visit_block_mut(&mut self, b: &mut Block) {
        let me = self.block_no;
        self.block_no += 1;
        // visit children first with the same numbering as the finder (numbering is pre-order, so
        // take the number before descending) but insert after descending so indices stay valid
        visit_mut::visit_block_mut(self, b);
        if me == self.target_block && !self.done {
            let at = if self.after { self.idx + 1 } else { self.idx };
            // a trailing expression without semicolon cannot be followed by a statement
            if self.scrut {
                // `match E { arms }` -> `{ let __vp_scrut = E; marker; match __vp_scrut { arms } }`
                let (m, semi) = match &b.stmts[self.idx] {
                    Stmt::Expr(Expr::Match(m), semi) => (m.clone(), semi.clone()),
                    _ => return,
                };
                let scrut = &m.expr;
                let arms = &m.arms;
                let marker = &self.marker;
                let ne: Expr = syn::parse_quote!({ let __vp_scrut = #scrut; #marker match __vp_scrut { #(#arms)* } });
                b.stmts[self.idx] = Stmt::Expr(ne, semi);
                self.done = true;
                return;
            }
            if self.after && self.idx + 1 == b.stmts.len() {
                if let Stmt::Expr(e, None) = &b.stmts[self.idx] {
                    // a unit-typed tail (assignment): terminate it so that a statement can follow
                    let is_assign = matches!(e, Expr::Assign(_)) || matches!(e, Expr::Binary(bx) if matches!(bx.op,
                        syn::BinOp::AddAssign(_) | syn::BinOp::SubAssign(_) | syn::BinOp::MulAssign(_) | syn::BinOp::DivAssign(_) |
                        syn::BinOp::BitOrAssign(_) | syn::BinOp::BitAndAssign(_) | syn::BinOp::BitXorAssign(_) | syn::BinOp::ShlAssign(_) | syn::BinOp::ShrAssign(_) | syn::BinOp::RemAssign(_)));
                    let is_unit_block = matches!(e, Expr::While(_) | Expr::ForLoop(_) | Expr::If(_) | Expr::Unsafe(_) | Expr::Block(_) | Expr::Match(_));
                    if !is_assign && !is_unit_block && !self.force_unit {
                        return;
                    }
                    if is_assign || (self.force_unit && !is_unit_block) {
                        let e2 = e.clone();
                        b.stmts[self.idx] = Stmt::Expr(e2, Some(Default::default()));
                    }
                }
            }
            b.stmts.insert(at, self.marker.clone());
            self.done = true;
        }
    }
}

fn insert_anchor(block: &mut Block, id: &str, place: &str, anchor: &str, nth: usize, unit_ret: bool) -> Result<(), String> {
    let marker = marker_stmt("__vp_proof", id);
    match place {
        "start" => {
            // after leading loop marker if any
            let mut at = 0;
            while at < block.stmts.len() && norm(block.stmts[at].to_token_stream()).starts_with("__vp_") {
                at += 1;
            }
            block.stmts.insert(at, marker);
            Ok(())
        }
        "loopstart" | "loopend" => {
            // first / last statement of the body of loop #nth (the body starts with its ordinal marker)
            struct LS { want: String, marker: Stmt, done: bool, at_end: bool }
            impl VisitMut for LS {
                fn visit_block_mut(&mut self, b: &mut Block) {
                    if !self.done {
                        if let Some(first) = b.stmts.first() {
                            if norm(first.to_token_stream()) == self.want {
                                if self.at_end {
                                    b.stmts.push(self.marker.clone());
                                } else {
                                    b.stmts.insert(1, self.marker.clone());
                                }
                                self.done = true;
                                return;
                            }
                        }
                    }
                    visit_mut::visit_block_mut(self, b);
                }
            }
            let mut ls = LS { want: format!("__vp_loop!({});", nth), marker, done: false, at_end: place == "loopend" };
            ls.visit_block_mut(block);
            if ls.done { Ok(()) } else { Err(format!("lost anchor: loop #{} not found (proof {})", nth, id)) }
        }
        "ret" => {
            // the tail expression is bound first: `{ ..; let __vp_ret = E; <proof>; __vp_ret }`
            let n = block.stmts.len();
            if n > 0 {
                if let Stmt::Expr(e, None) = &block.stmts[n - 1] {
                    let e = e.clone();
                    block.stmts[n - 1] = syn::parse_quote!(let __vp_ret = #e;);
                    block.stmts.push(marker);
                    block.stmts.push(Stmt::Expr(syn::parse_quote!(__vp_ret), None));
                    return Ok(());
                }
            }
            Err(format!("lost anchor: function has no tail expression (proof {})", id))
        }
        "end" => {
            let n = block.stmts.len();
            if n > 0 {
                if let Stmt::Expr(e, None) = &block.stmts[n - 1] {
                    let block_like = matches!(e, Expr::While(_) | Expr::ForLoop(_) | Expr::If(_) | Expr::Unsafe(_) | Expr::Block(_) | Expr::Match(_));
                    if !(unit_ret && block_like) {
                        block.stmts.insert(n - 1, marker);
                        return Ok(());
                    }
                }
            }
            block.stmts.push(marker);
            Ok(())
        }
        "before" | "after" | "after_unit" | "scrut" => {
            let a: String = anchor.chars().filter(|c| !c.is_whitespace()).collect();
            let a_norm = match anchor.parse::<TokenStream>() {
                Ok(ts) => norm(ts),
                Err(_) => a.clone(),
            };
            let mut f = AnchorFinder { anchor: &a_norm, block_no: 0, cands: vec![] };
            f.visit_block_mut(block);
            if f.cands.is_empty() {
                return Err(format!("lost anchor: no statement contains `{}` (proof {})", anchor, id));
            }
            if nth >= f.cands.len() {
                return Err(format!("lost anchor: `{}` has {} innermost matches, wanted #{}", anchor, f.cands.len(), nth));
            }
            let (bno, idx) = f.cands[nth];
            let mut ins = AnchorInserter { target_block: bno, idx, after: place == "after" || place == "after_unit", scrut: place == "scrut", force_unit: place == "after_unit", marker, block_no: 0, done: false };
            ins.visit_block_mut(block);
            if !ins.done {
                return Err(format!("lost anchor: `{}`: cannot insert {} this statement (proof {})", anchor, place, id));
            }
            Ok(())
        }
        _ => Err(format!("bad anchor place {}", place)),
    }
}

// --- pass 2: structural rewrites

struct Structural<'c, 'a> {
    cx: &'c mut Ctx<'a>,
}

fn macro_name(m: &syn::Macro) -> String {
    m.path.segments.last().map(|s| s.ident.to_string()).unwrap_or_default()
}

impl<'c, 'a> Structural<'c, 'a> {
    fn rewrite_macro_expr(&mut self, m: &syn::Macro) -> Option<Expr> {
        let name = macro_name(m);
        let span = m.path.segments[0].ident.span();
        match name.as_str() {
            "format" => {
                self.cx.logr("R8", span, "format!(..) -> opaque_string()".into());
                Some(syn::parse_quote!(opaque_string()))
            }
            "panic" | "unreachable" | "unimplemented" | "todo" => {
                self.cx.logr("R8", span, format!("{}!(..) -> unwinding point", name));
                Some(syn::parse_quote!(__vp_unwind!()))
            }
            "vec" => {
                if m.tokens.is_empty() {
                    self.cx.logr("R8", span, "vec![] -> Vec::new()".into());
                    Some(syn::parse_quote!(Vec::new()))
                } else {
                    None
                }
            }
            "assert" => {
                let parts = split_commas(m.tokens.clone());
                let c = parts.get(0).cloned().unwrap_or_default();
                self.cx.logr("R8", span, "assert!(c, ..) -> if !(c) { unwinding point }".into());
                Some(syn::parse_quote!(if !(#c) { __vp_unwind!(); }))
            }
            "writeln" | "write" => {
                // R18: `writeln!(w, "lit {} lit {}", a, b)` with plain `{}` placeholders only -> the pieces go through the writer's own
                // `Write::write_all` (verified, R24: write_all_trait), each argument through fmt_display (std's Display of an unsigned integer
                // = canonical decimal: assumed), result Ok(())
                let parts = split_commas(m.tokens.clone());
                if parts.len() < 2 {
                    return None;
                }
                let w: Expr = syn::parse2(parts[0].clone()).ok()?;
                let lit: syn::LitStr = syn::parse2(parts[1].clone()).ok()?;
                let mut fmt = lit.value();
                if name == "writeln" {
                    fmt.push('\n');
                }
                let args: Vec<Expr> = parts[2..].iter().filter(|p| !p.is_empty()).filter_map(|p| syn::parse2(p.clone()).ok()).collect();
                let pieces: Vec<&str> = fmt.split("{}").collect();
                if pieces.iter().any(|p| p.contains('{') || p.contains('}')) || pieces.len() != args.len() + 1 {
                    self.cx.errors.push(format!("unsupported-construct: {}! with a format string other than plain `{{}}` placeholders", name));
                    return None;
                }
                let mut stmts: Vec<Stmt> = vec![];
                for (i, piece) in pieces.iter().enumerate() {
                    if !piece.is_empty() {
                        let lits: Vec<proc_macro2::Literal> = piece.bytes().map(proc_macro2::Literal::u8_suffixed).collect();
                        stmts.push(syn::parse_quote!(let _ = #w.write_all_trait(&[#(#lits),*]);));
                    }
                    if i < args.len() {
                        let a = &args[i];
                        stmts.push(syn::parse_quote!(fmt_display(#w, #a);));
                    }
                }
                self.cx.logr("R18", span, format!("{}!(w, {:?}, ..) -> {} literal piece(s) through Write::write_all of the writer, {} argument(s) through fmt_display", name, fmt, pieces.iter().filter(|p| !p.is_empty()).count(), args.len()));
                Some(syn::parse_quote!({ #(#stmts)* fmt_ok() }))
            }
            "debug_assert" => {
                let n = self.cx.dasserts;
                self.cx.dasserts += 1;
                self.cx.logr("R8", span, format!("debug_assert!(..) #{} -> proof obligation", n));
                let lit = proc_macro2::Literal::usize_unsuffixed(n);
                Some(syn::parse_quote!(__vp_dassert!(#lit)))
            }
            _ => None,
        }
    }
}

impl<'c, 'a> VisitMut for Structural<'c, 'a> {
    fn visit_stmt_mut(&mut self, s: &mut Stmt) {
        if let Stmt::Macro(sm) = s {
            if !macro_name(&sm.mac).starts_with("__vp_") {
                if let Some(e) = self.rewrite_macro_expr(&sm.mac) {
                    *s = Stmt::Expr(e, Some(Default::default()));
                }
            }
        }
        visit_mut::visit_stmt_mut(self, s);
    }

    fn visit_expr_mut(&mut self, e: &mut Expr) {
        // children first
        visit_mut::visit_expr_mut(self, e);
        // R15c: `mut x` bindings in match-arm patterns -> plain binding + shadowing `let mut x = x;` at the start of the arm
        if let Expr::Match(m) = e {
            for arm in m.arms.iter_mut() {
                let mut mb = MutBindings { names: vec![] };
                mb.visit_pat_mut(&mut arm.pat);
                if !mb.names.is_empty() {
                    let body = &arm.body;
                    let lets: Vec<Stmt> = mb.names.iter().map(|n| { let s: Stmt = syn::parse_quote!(let mut #n = #n;); s }).collect();
                    arm.body = Box::new(syn::parse_quote!({ #(#lets)* #body }));
                    self.cx.logr("R15", m.match_token.span, format!("`mut` binding(s) {} in a match pattern -> shadowing let in the arm", mb.names.iter().map(|n| n.to_string()).collect::<Vec<_>>().join(", ")));
                }
            }
        }
        // R5b: reference patterns nested in match / if-let patterns (`Some(&X { a, .. })` against an `Option<&X>`): the `&` is dropped
        // (default binding modes then bind `a` by reference) and each binding below it is dereferenced at the start of the arm
        if let Expr::Match(m) = e {
            for arm in m.arms.iter_mut() {
                let mut rp = RefPats { names: vec![], inside: 0 };
                rp.visit_pat_mut(&mut arm.pat);
                if !rp.names.is_empty() {
                    let names = &rp.names;
                    if let Some((_, g)) = &arm.guard {
                        let g = g.clone();
                        arm.guard.as_mut().unwrap().1 = Box::new(syn::parse_quote!({ #(let #names = *#names;)* #g }));
                    }
                    let body = &arm.body;
                    arm.body = Box::new(syn::parse_quote!({ #(let #names = *#names;)* #body }));
                    self.cx.logr("R5", m.match_token.span, format!("reference pattern in a match arm dropped; binding(s) {} dereferenced in the arm", names.iter().map(|n| n.to_string()).collect::<Vec<_>>().join(", ")));
                }
            }
        }
        if let Expr::If(i) = e {
            if let Expr::Let(l) = &mut *i.cond {
                let mut rp = RefPats { names: vec![], inside: 0 };
                rp.visit_pat_mut(&mut l.pat);
                if !rp.names.is_empty() {
                    let names = &rp.names;
                    let stmts = &i.then_branch.stmts;
                    i.then_branch = syn::parse_quote!({ #(let #names = *#names;)* #(#stmts)* });
                    self.cx.logr("R5", i.if_token.span, format!("reference pattern in an if-let dropped; binding(s) {} dereferenced in the block", names.iter().map(|n| n.to_string()).collect::<Vec<_>>().join(", ")));
                }
            }
        }
        // R31: a labelled loop whose `continue 'l` / `break 'l` all sit directly in it (not inside a nested loop): the label is dropped
        if let Expr::Loop(l) = e {
            if let Some(lab) = l.label.clone() {
                let name = lab.name.ident.to_string();
                let mut lu = LabelUse { name: name.clone(), depth: 0, nested: false, count: 0 };
                lu.visit_block_mut(&mut l.body);
                if !lu.nested {
                    l.label = None;
                    let mut ls = LabelStrip { name };
                    ls.visit_block_mut(&mut l.body);
                    self.cx.logr("R31", l.loop_token.span, format!("label '{} of a loop dropped ({} uses, none inside a nested loop)", lab.name.ident, lu.count));
                }
            }
        }
        let replacement: Option<Expr> = match e {
            Expr::Macro(em) => {
                if macro_name(&em.mac).starts_with("__vp_") {
                    None
                } else {
                    self.rewrite_macro_expr(&em.mac)
                }
            }
            Expr::MethodCall(mc) if (mc.method == "give_up" || mc.method == "give_up_at") && matches!(mc.args.last(), Some(Expr::Lit(l)) if matches!(l.lit, syn::Lit::Str(_))) => {
                // R8: message argument given as a string literal (`impl Into<String>`) -> opaque_string()
                let mut m2 = mc.clone();
                let n = m2.args.len();
                m2.args[n - 1] = syn::parse_quote!(opaque_string());
                self.cx.logr("R8", mc.method.span(), "string-literal message -> opaque_string()".into());
                Some(Expr::MethodCall(m2))
            }
            Expr::Lit(el) => {
                // R29: byte-string literal -> reference to an array literal (Verus knows the length of b".." but not its bytes)
                if let syn::Lit::ByteStr(bs) = &el.lit {
                    let bytes = bs.value();
                    let lits: Vec<proc_macro2::Literal> = bytes.iter().map(|b| proc_macro2::Literal::u8_suffixed(*b)).collect();
                    self.cx.logr("R29", bs.span(), format!("byte-string literal of {} bytes -> array literal", bytes.len()));
                    Some(syn::parse_quote!(&[#(#lits),*]))
                } else {
                    None
                }
            }
            Expr::Unsafe(u) => {
                self.cx.logr("R3", u.unsafe_token.span, "unsafe block opened; operations inside are rewritten to shims with their safety condition as precondition".into());
                let b = &u.block;
                Some(syn::parse_quote!(#b))
            }
            Expr::While(w) => {
                if let Expr::Let(l) = &*w.cond {
                    // R13
                    let pat = &l.pat;
                    let ex = &l.expr;
                    let mut body = w.body.clone();
                    // move the loop marker out of the inner block
                    let marker = if !body.stmts.is_empty() && norm(body.stmts[0].to_token_stream()).starts_with("__vp_loop") {
                        Some(body.stmts.remove(0))
                    } else {
                        None
                    };
                    let label = &w.label;
                    self.cx.logr("R13", w.while_token.span, "while let -> loop/match".into());
                    Some(syn::parse_quote!(#label loop { #marker match #ex { #pat => #body _ => break } }))
                } else {
                    None
                }
            }
            Expr::ForLoop(f) => self.rewrite_for(f),
            Expr::Match(m) if m.arms.iter().any(|a| a.guard.is_some() && matches!(a.pat, syn::Pat::Or(_))) => {
                // R28: `P1 | P2 if G => B` -> `P1 if G => B, P2 if G => B` (patterns without bindings; Verus rejects or-pattern + guard)
                let mut m2 = m.clone();
                let mut arms = vec![];
                let mut ok = true;
                for a in &m.arms {
                    match (&a.pat, &a.guard) {
                        (syn::Pat::Or(po), Some(_)) => {
                            for case in &po.cases {
                                if norm(case.to_token_stream()).contains('@') || has_binding(case) {
                                    ok = false;
                                }
                                let mut a2 = a.clone();
                                a2.pat = case.clone();
                                if a2.comma.is_none() {
                                    a2.comma = Some(Default::default());
                                }
                                arms.push(a2);
                            }
                        }
                        _ => {
                            let mut a2 = a.clone();
                            if a2.comma.is_none() {
                                a2.comma = Some(Default::default());
                            }
                            arms.push(a2);
                        }
                    }
                }
                if ok {
                    m2.arms = arms;
                    self.cx.logr("R28", m.match_token.span, "or-pattern with guard split into one guarded arm per alternative".into());
                    Some(Expr::Match(m2))
                } else {
                    None
                }
            }
            Expr::Match(m) => {
                // R26: `P if G => A, _ => D` (guarded arm followed only by a catch-all) -> `P => if G { A } else { D }, _ => D`
                let n = m.arms.len();
                if n >= 2 && m.arms[n - 2].guard.is_some() && m.arms[n - 1].guard.is_none() && matches!(m.arms[n - 1].pat, syn::Pat::Wild(_)) {
                    let mut m2 = m.clone();
                    let d = m2.arms[n - 1].body.clone();
                    let (_, g) = m2.arms[n - 2].guard.take().unwrap();
                    let a = m2.arms[n - 2].body.clone();
                    m2.arms[n - 2].body = Box::new(syn::parse_quote!(if #g { #a } else { #d }));
                    if m2.arms[n - 2].comma.is_none() {
                        m2.arms[n - 2].comma = Some(Default::default());
                    }
                    self.cx.logr("R26", m.match_token.span, "guarded arm before catch-all -> if/else inside the arm".into());
                    Some(Expr::Match(m2))
                } else {
                    None
                }
            }
            _ => None,
        };
        if let Some(r) = replacement {
            *e = r;
        }
    }
}

struct RefPats { names: Vec<syn::Ident>, inside: usize }
impl VisitMut for RefPats {
    fn visit_pat_mut(&mut self, p: &mut syn::Pat) {
        if let syn::Pat::Reference(r) = p {
            if r.mutability.is_none() {
                let inner = (*r.pat).clone();
                *p = inner;
                self.inside += 1;
                self.visit_pat_mut(p);
                self.inside -= 1;
                return;
            }
        }
        if self.inside > 0 {
            if let syn::Pat::Ident(pi) = p {
                if pi.by_ref.is_none() && pi.subpat.is_none() && !self.names.contains(&pi.ident) {
                    // an identifier pattern that starts with an upper-case letter is a constant/unit variant, not a binding
                    if pi.ident.to_string().chars().next().map(|c| c.is_lowercase() || c == '_').unwrap_or(false) {
                        self.names.push(pi.ident.clone());
                    }
                }
            }
        }
        visit_mut::visit_pat_mut(self, p);
    }
}
struct MutBindings { names: Vec<syn::Ident> }
impl VisitMut for MutBindings {
    fn visit_pat_ident_mut(&mut self, p: &mut syn::PatIdent) {
        if p.mutability.is_some() && p.by_ref.is_none() {
            p.mutability = None;
            self.names.push(p.ident.clone());
        }
        visit_mut::visit_pat_ident_mut(self, p);
    }
    fn visit_field_pat_mut(&mut self, fp: &mut syn::FieldPat) {
        // `Struct { mut def, .. }` is shorthand for `def: mut def`: spell the field out when the `mut` goes away
        visit_mut::visit_field_pat_mut(self, fp);
        if fp.colon_token.is_none() {
            if let syn::Pat::Ident(pi) = &*fp.pat {
                if self.names.contains(&pi.ident) {
                    fp.colon_token = None;
                }
            }
        }
    }
}
struct LabelUse { name: String, depth: usize, nested: bool, count: usize }
impl VisitMut for LabelUse {
    fn visit_expr_mut(&mut self, e: &mut Expr) {
        match e {
            Expr::Loop(_) | Expr::While(_) | Expr::ForLoop(_) => {
                self.depth += 1;
                visit_mut::visit_expr_mut(self, e);
                self.depth -= 1;
                return;
            }
            Expr::Closure(_) => return,
            Expr::Continue(c) => {
                if c.label.as_ref().map(|l| l.ident == self.name).unwrap_or(false) { self.count += 1; if self.depth > 0 { self.nested = true; } }
            }
            Expr::Break(b) => {
                if b.label.as_ref().map(|l| l.ident == self.name).unwrap_or(false) { self.count += 1; if self.depth > 0 { self.nested = true; } }
            }
            _ => {}
        }
        visit_mut::visit_expr_mut(self, e);
    }
}
struct LabelStrip { name: String }
impl VisitMut for LabelStrip {
    fn visit_expr_mut(&mut self, e: &mut Expr) {
        match e {
            Expr::Continue(c) => { if c.label.as_ref().map(|l| l.ident == self.name).unwrap_or(false) { c.label = None; } }
            Expr::Break(b) => { if b.label.as_ref().map(|l| l.ident == self.name).unwrap_or(false) { b.label = None; } }
            _ => {}
        }
        visit_mut::visit_expr_mut(self, e);
    }
}

impl<'c, 'a> Structural<'c, 'a> {
    fn rewrite_for(&mut self, f: &syn::ExprForLoop) -> Option<Expr> {
        // R6: for (i, p) in S.iter().enumerate()
        let it = &*f.expr;
        let label = &f.label;
        // R6d: `for p in [a, b, ..]` (array literal by value) -> index loop over a local copy of the array
        if let Expr::Array(arr) = it {
            if let syn::Pat::Ident(_) = &*f.pat {
                let n = arr.elems.len();
                let mut body = f.body.clone();
                let marker = if !body.stmts.is_empty() && norm(body.stmts[0].to_token_stream()).starts_with("__vp_loop") {
                    Some(body.stmts.remove(0))
                } else {
                    None
                };
                if !norm(body.to_token_stream()).contains("continue") {
                    let p = &f.pat;
                    let stmts = &body.stmts;
                    self.cx.logr("R6", f.for_token.span, format!("for x in [..{} elements..] -> index loop over a local array", n));
                    // `if true { .. }` rather than a bare block: Verus' parser takes a block that directly follows a loop body for a clause
                    return Some(syn::parse_quote!(if true {
                        let __vp_arr = #arr;
                        #label for __vp_k in 0..#n { #marker let #p = __vp_arr[__vp_k]; #(#stmts)* }
                    }));
                }
            }
        }
        // R6c: `for p in &S` / `for p in S.iter()` / `for p in S` (S a slice or Vec place) -> index loop
        {
            let src: Option<Expr> = match it {
                Expr::Reference(r) if r.mutability.is_none() => Some((*r.expr).clone()),
                Expr::MethodCall(mc) if mc.method == "iter" && mc.args.is_empty() => Some((*mc.receiver).clone()),
                Expr::Path(_) | Expr::Field(_) if self.cx.opts["for_by_index"].as_bool().unwrap_or(false) => Some(it.clone()),
                _ => None,
            };
            if let Some(s) = src {
                if matches!(s, Expr::Path(_) | Expr::Field(_)) {
                    let mut body = f.body.clone();
                    let marker = if !body.stmts.is_empty() && norm(body.stmts[0].to_token_stream()).starts_with("__vp_loop") {
                        Some(body.stmts.remove(0))
                    } else {
                        None
                    };
                    let bind: Stmt = match &*f.pat {
                        syn::Pat::Reference(r) => {
                            let p = &r.pat;
                            syn::parse_quote!(let #p = #s[__vp_k];)
                        }
                        p => syn::parse_quote!(let #p = &#s[__vp_k];),
                    };
                    if norm(body.to_token_stream()).contains("continue") {
                        self.cx.errors.push("unsupported-construct: `continue` inside a for loop over a slice".into());
                        return None;
                    }
                    self.cx.logr("R6", f.for_token.span, "for x in &S / S.iter() -> for k in 0..S.len()".into());
                    let stmts = &body.stmts;
                    return Some(syn::parse_quote!(#label for __vp_k in 0..#s.len() { #marker #bind #(#stmts)* }));
                }
            }
        }
        // R6b: for p in S.iter().rev()  ->  descending index loop
        if let Expr::MethodCall(mc) = it {
            if mc.method == "rev" && mc.args.is_empty() {
                if let Expr::MethodCall(inner) = &*mc.receiver {
                    if inner.method == "iter" && inner.args.is_empty() {
                        let s = &inner.receiver;
                        let mut body = f.body.clone();
                        let marker = if !body.stmts.is_empty() && norm(body.stmts[0].to_token_stream()).starts_with("__vp_loop") {
                            Some(body.stmts.remove(0))
                        } else {
                            None
                        };
                        let bind: Stmt = match &*f.pat {
                            syn::Pat::Reference(r) => {
                                let p = &r.pat;
                                syn::parse_quote!(let #p = __vp_s[__vp_i];)
                            }
                            p => syn::parse_quote!(let #p = &__vp_s[__vp_i];),
                        };
                        self.cx.logr("R6", f.for_token.span, "for x in S.iter().rev() -> descending index loop over S".into());
                        let stmts = &body.stmts;
                        return Some(syn::parse_quote!({
                            let __vp_s = &#s;
                            let mut __vp_i = __vp_s.len();
                            #label while __vp_i > 0 { #marker __vp_i -= 1; #bind #(#stmts)* }
                        }));
                    }
                }
            }
        }
        if let Expr::MethodCall(mc) = it {
            if mc.method == "enumerate" && mc.args.is_empty() {
                if let Expr::MethodCall(inner) = &*mc.receiver {
                    if inner.method == "iter" && inner.args.is_empty() {
                        let s = &inner.receiver;
                        if let syn::Pat::Tuple(pt) = &*f.pat {
                            if pt.elems.len() == 2 {
                                if let syn::Pat::Ident(iid) = &pt.elems[0] {
                                    let i = &iid.ident;
                                    let mut body = f.body.clone();
                                    let marker = if !body.stmts.is_empty() && norm(body.stmts[0].to_token_stream()).starts_with("__vp_loop") {
                                        Some(body.stmts.remove(0))
                                    } else {
                                        None
                                    };
                                    let bind: Stmt = match &pt.elems[1] {
                                        syn::Pat::Reference(r) => {
                                            let p = &r.pat;
                                            syn::parse_quote!(let #p = #s[#i];)
                                        }
                                        p => syn::parse_quote!(let #p = &#s[#i];),
                                    };
                                    if norm(body.to_token_stream()).contains("continue") {
                                        self.cx.errors.push("unsupported-construct: `continue` inside enumerate loop".into());
                                        return None;
                                    }
                                    self.cx.logr("R6", f.for_token.span, "for (i, x) in S.iter().enumerate() -> for i in 0..S.len()".into());
                                    let stmts = &body.stmts;
                                    return Some(syn::parse_quote!(#label for #i in 0..#s.len() { #marker #bind #(#stmts)* }));
                                }
                            }
                        }
                    }
                }
            }
        }
        None
    }
}

fn has_binding(p: &syn::Pat) -> bool {
    struct B(bool);
    impl<'ast> Visit<'ast> for B {
        fn visit_pat_ident(&mut self, i: &'ast syn::PatIdent) {
            // identifiers in patterns are bindings unless they look like constants / unit variants (uppercase initial)
            let s = i.ident.to_string();
            if !s.chars().next().map(|c| c.is_uppercase()).unwrap_or(false) {
                self.0 = true;
            }
        }
    }
    let mut b = B(false);
    b.visit_pat(p);
    b.0
}

// --- pass 3: expression rules to fixpoint

struct RuleApplier<'c, 'a> {
    cx: &'c mut Ctx<'a>,
}
impl<'c, 'a> VisitMut for RuleApplier<'c, 'a> {
    fn visit_block_mut(&mut self, b: &mut Block) {
        // two-statement rules first (on the unrewritten statements)
        let mut i = 0;
        while i + 1 < b.stmts.len() {
            let pair = match (&b.stmts[i], &b.stmts[i + 1]) {
                (Stmt::Expr(e1, Some(_)), Stmt::Expr(e2, semi)) => matcher::apply_stmt_rules(e1, e2, self.cx.rules).map(|r| (r, semi.clone())),
                _ => None,
            };
            if let Some(((ne, id), semi)) = pair {
                let line = first_line(b.stmts[i].to_token_stream());
                self.cx.log.push(json!({"rule": id, "line": line, "what": format!("two statements -> {}", one_line(ne.to_token_stream()))}));
                b.stmts[i] = Stmt::Expr(ne, semi);
                b.stmts.remove(i + 1);
            }
            i += 1;
        }
        visit_mut::visit_block_mut(self, b);
    }

    fn visit_expr_mut(&mut self, e: &mut Expr) {
        // per-function substitutions (rule ids S<k>) see the unrewritten expression first (top-down)
        let srules: Vec<Rule> = self.cx.rules.iter().filter(|r| r.id.starts_with('S') && r.id[1..].chars().all(|c| c.is_ascii_digit())).cloned().collect();
        if !srules.is_empty() {
            if let Some((ne, id)) = matcher::apply_rules_once(e, &srules) {
                let line = first_line(e.to_token_stream());
                self.cx.log.push(json!({"rule": id, "line": line, "what": format!("{} -> {}", one_line(e.to_token_stream()), one_line(ne.to_token_stream()))}));
                *e = ne;
            }
        }
        visit_mut::visit_expr_mut(self, e);
        for _ in 0..8 {
            match matcher::apply_rules_once(e, self.cx.rules) {
                Some((ne, id)) => {
                    let line = first_line(e.to_token_stream());
                    self.cx.log.push(json!({"rule": id, "line": line, "what": format!("{} -> {}", one_line(e.to_token_stream()), one_line(ne.to_token_stream()))}));
                    *e = ne;
                    // new children may match further rules
                    visit_mut::visit_expr_mut(self, e);
                }
                None => break,
            }
        }
    }
}

fn first_line(ts: TokenStream) -> usize {
    for tt in ts {
        let l = match &tt {
            TokenTree::Group(g) => {
                let l = g.span_open().start().line;
                if l > 1 {
                    l
                } else {
                    first_line(g.stream())
                }
            }
            t => t.span().start().line,
        };
        if l > 1 {
            return l;
        }
    }
    0
}

// --- ghost fields in struct literals

struct GhostInit<'p> {
    plan: &'p Value,
    self_name: Option<String>,
}
impl<'p> VisitMut for GhostInit<'p> {
    fn visit_expr_struct_mut(&mut self, s: &mut syn::ExprStruct) {
        visit_mut::visit_expr_struct_mut(self, s);
        let mut name = s.path.segments.last().map(|x| x.ident.to_string()).unwrap_or_default();
        if name == "Self" {
            if let Some(n) = &self.self_name {
                name = n.clone();
            }
        }
        if let Some(gf) = self.plan["ghost_fields"].get(&name).and_then(|v| v.as_array()) {
            if s.rest.is_none() {
                for f in gf {
                    let fname = syn::Ident::new(f[0].as_str().unwrap(), Span::call_site());
                    let init: Expr = syn::parse_str(f[2].as_str().unwrap()).expect("ghost init expr");
                    s.fields.push(syn::parse_quote!(#fname: #init));
                }
            }
        }
    }
}

// R30b: `x = &mut place;` where x is an eliminated alias of the same place (re-borrow after a closure used the place): dropped
struct DropRealias<'x> {
    name: &'x str,
    place: String,
    dropped: usize,
}
impl<'x> VisitMut for DropRealias<'x> {
    fn visit_block_mut(&mut self, b: &mut syn::Block) {
        let name = self.name;
        let place = self.place.clone();
        let before = b.stmts.len();
        b.stmts.retain(|st| {
            if let Stmt::Expr(Expr::Assign(a), _) = st {
                if matches!(&*a.left, Expr::Path(p) if p.qself.is_none() && p.path.is_ident(name)) {
                    if let Expr::Reference(r) = &*a.right {
                        if r.mutability.is_some() && norm(r.expr.to_token_stream()) == place {
                            return false;
                        }
                    }
                }
            }
            true
        });
        self.dropped += before - b.stmts.len();
        syn::visit_mut::visit_block_mut(self, b);
    }
}

struct AliasElim<'x> {
    name: &'x str,
    place: &'x Expr,
}
impl<'x> AliasElim<'x> {
    fn is_alias(&self, e: &Expr) -> bool {
        matches!(e, Expr::Path(p) if p.qself.is_none() && p.path.is_ident(self.name))
    }
}
impl<'x> VisitMut for AliasElim<'x> {
    fn visit_expr_mut(&mut self, e: &mut Expr) {
        // as the base of a field access or the receiver of a method call: the place itself
        match e {
            Expr::Field(f) if self.is_alias(&f.base) => {
                f.base = Box::new(self.place.clone());
                return;
            }
            Expr::MethodCall(m) if self.is_alias(&m.receiver) => {
                m.receiver = Box::new(self.place.clone());
                for a in m.args.iter_mut() {
                    self.visit_expr_mut(a);
                }
                return;
            }
            _ => {}
        }
        if self.is_alias(e) {
            let p = self.place;
            *e = syn::parse_quote!(&mut #p);
            return;
        }
        visit_mut::visit_expr_mut(self, e);
    }
}

struct PlaceSubst<'x> {
    place: String,
    with: &'x Expr,
}
impl<'x> VisitMut for PlaceSubst<'x> {
    fn visit_expr_mut(&mut self, e: &mut Expr) {
        if matches!(e, Expr::Field(_) | Expr::Path(_)) && norm(e.to_token_stream()) == self.place {
            *e = self.with.clone();
            return;
        }
        // `&mut PLACE` -> `&mut *name` is fine (reborrow)
        visit_mut::visit_expr_mut(self, e);
    }
}

struct BreakToReturn {
    n: usize,
}
impl VisitMut for BreakToReturn {
    fn visit_expr_mut(&mut self, e: &mut Expr) {
        match e {
            Expr::Loop(_) | Expr::While(_) | Expr::ForLoop(_) | Expr::Closure(_) => return, // breaks inside belong to the inner loop
            Expr::Break(b) if b.label.is_none() && b.expr.is_some() => {
                let v = b.expr.take().unwrap();
                *e = syn::parse_quote!(return #v);
                self.n += 1;
                return;
            }
            _ => {}
        }
        visit_mut::visit_expr_mut(self, e);
    }
}

struct Renamer<'m> {
    map: &'m [(String, String)],
}
impl<'m> VisitMut for Renamer<'m> {
    fn visit_pat_ident_mut(&mut self, p: &mut syn::PatIdent) {
        for (a, b) in self.map {
            if p.ident == a {
                p.ident = syn::Ident::new(b, p.ident.span());
            }
        }
        visit_mut::visit_pat_ident_mut(self, p);
    }
    fn visit_expr_path_mut(&mut self, p: &mut syn::ExprPath) {
        if p.qself.is_none() && p.path.segments.len() == 1 {
            for (a, b) in self.map {
                if p.path.segments[0].ident == a {
                    let sp = p.path.segments[0].ident.span();
                    p.path.segments[0].ident = syn::Ident::new(b, sp);
                }
            }
        }
    }
}

// ------------------------------------------------------------------------------------------ extract fn

pub fn extract_fn(file: &syn::File, name: &str, opts: &Value, rules: &[Rule], plan: &Value) -> Result<Value, String> {
    let lifted = &opts["lifted_from"];
    let mut pre_numbered = false;
    let mut f = if lifted.is_object() {
        // R10: the body of closure #n of the parent function becomes a named function
        let parent = lifted["fn"].as_str().ok_or("lifted_from.fn")?;
        let n = lifted["closure"].as_u64().ok_or("lifted_from.closure")? as usize;
        let mut pf = find_fn(&file.items, parent)?;
        let mut block = pf.block.take().ok_or("parent of lifted closure has no body")?;
        let stripped = strip_attr_tokens(block.to_token_stream());
        block = syn::parse2(stripped).map_err(|e| format!("re-parse after attribute stripping: {}", e))?;
        let mut dummy = Ctx { rules, opts, plan, log: vec![], errors: vec![], loops: 0, closures: 0, dasserts: 0, loop_heads: vec![] };
        // the parent's local aliases (R30) are eliminated first so that the closure body mentions places of the parent
        if let Some(al) = lifted["parent_aliases"].as_array() {
            for a in al {
                let name = a.as_str().unwrap_or("");
                let mut found: Option<(usize, Expr)> = None;
                for (i, st) in block.stmts.iter().enumerate() {
                    if let Stmt::Local(l) = st {
                        if let (syn::Pat::Ident(pi), Some(init)) = (&l.pat, &l.init) {
                            if pi.ident == name {
                                if let Expr::Reference(r) = &*init.expr {
                                    if r.mutability.is_some() {
                                        found = Some((i, (*r.expr).clone()));
                                    }
                                }
                            }
                        }
                    }
                }
                if let Some((i, pl)) = found {
                    block.stmts.remove(i);
                    AliasElim { name, place: &pl }.visit_block_mut(&mut block);
                }
            }
        }
        Numberer { cx: &mut dummy }.visit_block_mut(&mut block);
        let mut fc = crate::closures::FindClosure { want: n, found: None };
        fc.visit_block(&block);
        let c = fc.found.ok_or_else(|| format!("lost anchor: closure #{} of `{}` not found", n, parent))?;
        let params = lifted["params"].as_str().unwrap_or("");
        let mut inputs: syn::punctuated::Punctuated<syn::FnArg, syn::token::Comma> = Default::default();
        let mut deref_lets: Vec<Stmt> = vec![];
        for (pi, part) in params.split(';').enumerate() {
            for (k, p) in crate::closures::split_top_commas(part).into_iter().enumerate() {
                let p = p.trim();
                if p.is_empty() {
                    continue;
                }
                // closure parameter with a reference pattern: `&mut x: T` -> parameter `__cpK: &mut T` + `let x = *__cpK;` (R5)
                if pi == 1 && p.starts_with('&') {
                    let (is_mut, rest) = match p.strip_prefix("&mut ") {
                        Some(r) => (true, r),
                        None => (false, p[1..].trim()),
                    };
                    let (n, t) = rest.split_once(':').ok_or("lift: reference parameter needs a type")?;
                    let pid = syn::Ident::new(&format!("__cp{}", k), Span::call_site());
                    let ty: syn::Type = syn::parse_str(t.trim()).map_err(|e| format!("lift parameter type: {}", e))?;
                    let id = syn::Ident::new(n.trim(), Span::call_site());
                    let a: syn::FnArg = if is_mut { syn::parse_quote!(#pid: &mut #ty) } else { syn::parse_quote!(#pid: &#ty) };
                    inputs.push(a);
                    deref_lets.push(syn::parse_quote!(let #id = *#pid;));
                    continue;
                }
                // `name = expr : type` (how the captured value is passed) -> `name : type`
                let decl = match p.split_once(':') {
                    Some((n, t)) => format!("{}: {}", n.split('=').next().unwrap().trim(), t.trim()),
                    None => p.to_string(),
                };
                let a: syn::FnArg = syn::parse_str(&decl).map_err(|e| format!("lift parameter `{}`: {}", decl, e))?;
                inputs.push(a);
            }
        }
        pf.sig.inputs = inputs;
        pf.sig.ident = syn::Ident::new(name, pf.sig.ident.span());
        pf.sig.output = match lifted["ret"].as_str() {
            Some(r) if !r.trim().is_empty() => {
                let t: syn::Type = syn::parse_str(r).map_err(|e| format!("lift return type: {}", e))?;
                syn::ReturnType::Type(Default::default(), Box::new(t))
            }
            _ => syn::ReturnType::Default,
        };
        let mut body = crate::closures::closure_body_block(&c);
        // captured places of the parent (`name = &mut self.f : T` / `name = self.f : T`) become the parameter
        for p in crate::closures::split_top_commas(params.split(';').next().unwrap_or("")) {
            if let Some((lhs, _ty)) = p.split_once(':') {
                if let Some((n, ex)) = lhs.split_once('=') {
                    let n = n.trim();
                    if let Ok(e) = syn::parse_str::<Expr>(ex.trim()) {
                        let (place, by_ref) = match &e {
                            Expr::Reference(r) => ((*r.expr).clone(), true),
                            other => (other.clone(), false),
                        };
                        let id = syn::Ident::new(n, Span::call_site());
                        let with: Expr = if by_ref { syn::parse_quote!((*#id)) } else { syn::parse_quote!(#id) };
                        PlaceSubst { place: norm(place.to_token_stream()), with: &with }.visit_block_mut(&mut body);
                    }
                }
            }
        }
        for (k, l) in deref_lets.into_iter().enumerate() {
            body.stmts.insert(k, l);
        }
        pf.block = Some(body);
        pf.impl_generics = None;
        pf.self_ty = None;
        pf.trait_path = None;
        pre_numbered = true;
        pf
    } else {
        find_fn(&file.items, name)?
    };
    let tmap = type_map_of(plan)?;
    // per-function substitutions (logged by the driver as rule S) are tried before the global rules
    let mut all_rules: Vec<Rule> = vec![];
    if let Some(ss) = opts["substs"].as_array() {
        for (k, s) in ss.iter().enumerate() {
            let line = format!("S{}: {} ===> {}", k, s[0].as_str().unwrap_or(""), s[1].as_str().unwrap_or(""));
            all_rules.extend(matcher::parse_rules(&line)?);
        }
    }
    if let Some(rt) = opts["rules"].as_str() {
        all_rules.extend(matcher::parse_rules(rt)?);
    } else {
        all_rules.extend(rules.iter().cloned());
    }
    let rules: &[Rule] = &all_rules;
    let mut cx = Ctx { rules, opts, plan, log: vec![], errors: vec![], loops: 0, closures: 0, dasserts: 0, loop_heads: vec![] };
    let src_line = f.sig.ident.span().start().line;

    // signature: lifetimes, type map
    StripLifetimes.visit_signature_mut(&mut f.sig);
    let mut tm = TypeMap { map: &tmap, log: vec![] };
    tm.visit_signature_mut(&mut f.sig);
    if let Some(g) = &mut f.impl_generics {
        StripLifetimes.visit_generics_mut(g);
    }
    if let Some(t) = &mut f.self_ty {
        StripLifetimes.visit_type_mut(t);
    }

    // R25: parameter renames (a parameter with the name of its own function clashes in Verus' expansion)
    let mut renames: Vec<(String, String)> = vec![];
    if let Some(m) = opts["renames"].as_object() {
        for (k, v) in m {
            renames.push((k.clone(), v.as_str().unwrap_or("").to_string()));
        }
    }
    if !renames.is_empty() {
        let mut rn = Renamer { map: &renames };
        for inp in f.sig.inputs.iter_mut() {
            if let syn::FnArg::Typed(pt) = inp {
                rn.visit_pat_mut(&mut pt.pat);
            }
        }
        if let Some(b) = &mut f.block {
            rn.visit_block_mut(b);
        }
        for (a, b) in &renames {
            cx.log.push(json!({"rule": "R25", "line": src_line, "what": format!("parameter {} renamed to {}", a, b)}));
        }
    }
    // R15b: `mut self` receiver -> `self` + `let mut __vp_self = self;` with every use of `self` in the body renamed
    let mut mut_self = false;
    for inp in f.sig.inputs.iter_mut() {
        if let syn::FnArg::Receiver(r) = inp {
            if r.reference.is_none() && r.mutability.is_some() {
                r.mutability = None;
                mut_self = true;
            }
        }
    }
    if mut_self {
        let m = vec![("self".to_string(), "__vp_self".to_string())];
        if let Some(b) = &mut f.block {
            Renamer { map: &m }.visit_block_mut(b);
            b.stmts.insert(0, syn::parse_quote!(let mut __vp_self = self;));
        }
        cx.log.push(json!({"rule": "R15", "line": src_line, "what": "`mut self` receiver -> shadowing let (uses renamed to __vp_self)"}));
    }
    // params
    let mut params = vec![];
    let mut mut_params: Vec<syn::Ident> = vec![];
    let mut self_kind: Option<String> = None;
    for inp in f.sig.inputs.iter() {
        match inp {
            syn::FnArg::Receiver(r) => {
                let mut r2 = r.clone();
                r2.attrs.clear();
                self_kind = Some(one_line(r2.to_token_stream()));
            }
            syn::FnArg::Typed(pt) => {
                let ty = one_line(pt.ty.to_token_stream());
                match &*pt.pat {
                    syn::Pat::Ident(pi) => {
                        if pi.mutability.is_some() && pi.by_ref.is_none() {
                            mut_params.push(pi.ident.clone());
                        }
                        params.push(json!({"name": pi.ident.to_string(), "ty": ty, "mut": pi.mutability.is_some()}));
                    }
                    p => {
                        params.push(json!({"name": one_line(p.to_token_stream()), "ty": ty, "mut": false, "pattern": true}));
                    }
                }
            }
        }
    }
    let ret = match &f.sig.output {
        syn::ReturnType::Default => Value::Null,
        syn::ReturnType::Type(_, t) => json!(one_line(t.to_token_stream())),
    };
    let generics = {
        let g = &f.sig.generics;
        let mut g2 = g.clone();
        g2.where_clause = None;
        one_line(g2.to_token_stream())
    };
    let where_clause = f.sig.generics.where_clause.as_ref().map(|w| one_line(w.predicates.to_token_stream())).unwrap_or_default();

    let mut body_lines = vec![];
    let mut vanished_proofs: Vec<String> = vec![];
    let mut vanished_loops: Vec<usize> = vec![];
    let has_body = f.block.is_some();
    if let Some(mut block) = f.block.take() {
        // R1: attributes
        let stripped = strip_attr_tokens(block.to_token_stream());
        block = syn::parse2(stripped).map_err(|e| format!("re-parse after attribute stripping: {}", e))?;
        StripLifetimes.visit_block_mut(&mut block);
        // numbering
        if !pre_numbered {
            Numberer { cx: &mut cx }.visit_block_mut(&mut block);
            // loops whose contract names them by the text of their head (`loop N /while let Some(x) = ../`) keep their contract
            // number when loops before them appear or disappear; a named loop that no longer exists is reported as vanished
            if let Some(la) = opts["loop_anchors"].as_object() {
                if !la.is_empty() {
                    let (map, vanished) = match_loops(&cx.loop_heads, la);
                    RelabelLoops { map: &map }.visit_block_mut(&mut block);
                    vanished_loops = vanished;
                    for (actual, label) in map.iter().enumerate() {
                        if actual != *label {
                            cx.log.push(json!({"rule": "anchor", "line": src_line, "what": format!("loop #{} in source order is loop {} of the contract (matched by its head)", actual, label)}));
                        }
                    }
                }
            }
        } else {
            cx.loops = 1000;
            cx.closures = 1000;
        }
        // anchors
        if let Some(anchors) = opts["anchors"].as_array() {
            for a in anchors {
                let id = a["id"].as_str().unwrap();
                let place = a["place"].as_str().unwrap();
                let anchor = a["anchor"].as_str().unwrap_or("");
                let nth = a["nth"].as_u64().unwrap_or(0) as usize;
                if (place == "loopstart" || place == "loopend") && vanished_loops.contains(&nth) {
                    vanished_proofs.push(id.to_string());
                    continue;
                }
                if let Err(e) = insert_anchor(&mut block, id, place, anchor, nth, matches!(f.sig.output, syn::ReturnType::Default)) {
                    cx.errors.push(e);
                }
            }
        }
        // R30: elimination of a local alias `let x = &mut self.f;` (declared per function): uses of `x` become the place itself
        if let Some(al) = opts["aliases"].as_array() {
            for a in al {
                let name = a.as_str().unwrap_or("");
                let mut place: Option<Expr> = None;
                let mut idx = None;
                for (i, st) in block.stmts.iter().enumerate() {
                    if let Stmt::Local(l) = st {
                        if let (syn::Pat::Ident(pi), Some(init)) = (&l.pat, &l.init) {
                            if pi.ident == name {
                                if let Expr::Reference(r) = &*init.expr {
                                    if r.mutability.is_some() {
                                        place = Some((*r.expr).clone());
                                        idx = Some(i);
                                    }
                                }
                                // `let x = y.reader();` (LineReader::reader is `&mut self.reader`, verified in unit text)
                                if let Expr::MethodCall(mc) = &*init.expr {
                                    if mc.method == "reader" && mc.args.is_empty() {
                                        let rc = &mc.receiver;
                                        place = Some(syn::parse_quote!(#rc.reader));
                                        idx = Some(i);
                                    }
                                }
                            }
                        }
                    }
                }
                match (place, idx) {
                    (Some(pl), Some(i)) => {
                        block.stmts.remove(i);
                        let mut dr = DropRealias { name, place: norm(pl.to_token_stream()), dropped: 0 };
                        dr.visit_block_mut(&mut block);
                        if dr.dropped > 0 {
                            cx.log.push(json!({"rule": "R30", "line": src_line, "what": format!("{} re-borrow(s) `{} = &mut {}` of the eliminated alias dropped", dr.dropped, name, one_line(pl.to_token_stream()))}));
                        }
                        AliasElim { name, place: &pl }.visit_block_mut(&mut block);
                        cx.log.push(json!({"rule": "R30", "line": src_line, "what": format!("local alias `{}` = &mut {} eliminated", name, one_line(pl.to_token_stream()))}));
                    }
                    _ => cx.errors.push(format!("lost anchor: alias `let {} = &mut ..;` not found", name)),
                }
            }
        }
        // R14: a `loop` that is the tail expression of the function: `break V` -> `return V`
        if let Some(Stmt::Expr(Expr::Loop(l), None)) = block.stmts.last_mut() {
            if l.label.is_none() {
                let mut bv = BreakToReturn { n: 0 };
                bv.visit_block_mut(&mut l.body);
                if bv.n > 0 {
                    cx.log.push(json!({"rule": "R14", "line": src_line, "what": format!("{} `break V` of the tail loop -> `return V`", bv.n)}));
                }
            }
        }
        // structural
        Structural { cx: &mut cx }.visit_block_mut(&mut block);
        crate::closures::rewrite_closures(&mut block, &mut cx);
        // types inside the body
        let mut tm2 = TypeMap { map: &tmap, log: vec![] };
        tm2.visit_block_mut(&mut block);
        tm.log.extend(tm2.log);
        // ghost fields
        GhostInit { plan, self_name: f.self_ty.as_ref().and_then(last_ident_of_type) }.visit_block_mut(&mut block);
        // expression rules
        RuleApplier { cx: &mut cx }.visit_block_mut(&mut block);
        // R15: mut params
        for id in mut_params.iter().rev() {
            cx.log.push(json!({"rule": "R15", "line": src_line, "what": format!("mut parameter {} -> shadowing let", id)}));
            block.stmts.insert(0, syn::parse_quote!(let mut #id = #id;));
        }
        let inner: TokenStream = block.stmts.iter().map(|s| s.to_token_stream()).collect();
        body_lines = print_lines(inner, 0, true);
    }
    let mut log = cx.log;
    log.extend(tm.log);
    Ok(json!({
        "impl": {
            "generics": f.impl_generics.as_ref().map(|g| { let mut g2 = g.clone(); g2.where_clause = None; one_line(g2.to_token_stream()) }),
            "where": f.impl_generics.as_ref().and_then(|g| g.where_clause.as_ref()).map(|w| one_line(w.predicates.to_token_stream())),
            "self_ty": f.self_ty.as_ref().map(|t| one_line(t.to_token_stream())),
            "trait": f.trait_path.as_ref().map(|t| one_line(t.to_token_stream())),
            "trait_decl": f.in_trait_decl.as_ref().map(|t| t.to_string()),
        },
        "sig": {
            "vis": f.vis, "unsafe": f.sig.unsafety.is_some(), "name": f.sig.ident.to_string(),
            "generics": generics, "where": where_clause, "params": params, "ret": ret, "self": self_kind,
        },
        "has_body": has_body,
        "body": lines_json(&body_lines),
        "loops": cx.loops, "closures": cx.closures, "dasserts": cx.dasserts, "vanished_loops": vanished_loops, "vanished_proofs": vanished_proofs, "loop_heads": cx.loop_heads,
        "rewrites": log, "errors": cx.errors, "src_line": src_line,
    }))
}

/// Copy / Clone derives are kept (they change what compiles); all other derives are dropped (R1).
fn derives_of(attrs: &[syn::Attribute]) -> Vec<String> {
    let mut out = vec![];
    for a in attrs {
        if a.path().is_ident("derive") {
            if let syn::Meta::List(l) = &a.meta {
                for t in split_commas(l.tokens.clone()) {
                    let n = norm(t);
                    if n == "Copy" || n == "Clone" {
                        out.push(n);
                    }
                }
            }
        }
    }
    out
}

// ------------------------------------------------------------------------------------------ other items

pub fn extract_other(file: &syn::File, kind: &str, name: &str, _opts: &Value, _rules: &[Rule], plan: &Value) -> Result<Value, String> {
    let tmap = type_map_of(plan)?;
    let (items, name): (&[syn::Item], &str) = (&file.items, name);
    if kind == "trait" {
        for it in items {
            if let syn::Item::Trait(tr) = it {
                if tr.ident == name && cfg_true(&tr.attrs) {
                    let mut consts = vec![];
                    let mut fns = vec![];
                    for ti in &tr.items {
                        match ti {
                            syn::TraitItem::Const(c) => {
                                let mut c2 = c.clone();
                                c2.attrs.clear();
                                consts.push(one_line(c2.to_token_stream()));
                            }
                            syn::TraitItem::Fn(f) => fns.push(f.sig.ident.to_string()),
                            _ => {}
                        }
                    }
                    let mut g2 = tr.generics.clone();
                    g2.where_clause = None;
                    let sup = match _opts.get("supertraits").and_then(|v| v.as_str()) {
                        Some(s) => s.to_string(),
                        None => one_line(tr.supertraits.to_token_stream()),
                    };
                    return Ok(json!({"ident": name, "generics": one_line(g2.to_token_stream()),
                        "supertraits": sup, "consts": consts, "fns": fns,
                        "src_line": tr.ident.span().start().line, "rewrites": []}));
                }
            }
        }
        return Err(format!("lost anchor: trait `{}` not found", name));
    }
    if kind == "const" && name.starts_with('<') {
        // <Type as Trait>::CONST
        let rest = &name[1..];
        let (inner, c) = rest.split_once(">::").ok_or("bad qualified const name")?;
        let (ty, tr) = inner.split_once(" as ").ok_or("bad qualified const name")?;
        let tyn = norm(ty.parse::<TokenStream>().map_err(|e| e.to_string())?);
        for it in items {
            if let syn::Item::Impl(im) = it {
                if let Some((_, path, _)) = &im.trait_ {
                    if path.segments.last().map(|s| s.ident.to_string()).as_deref() == Some(tr.trim()) && norm(im.self_ty.to_token_stream()) == tyn && cfg_true(&im.attrs) {
                        for ii in &im.items {
                            if let syn::ImplItem::Const(k) = ii {
                                if k.ident == c && cfg_true(&k.attrs) {
                                    let mut k2 = k.clone();
                                    k2.attrs.clear();
                                    let line = k.ident.span().start().line;
                                    return Ok(json!({"impl_key": format!("impl {} for {}", one_line(path.to_token_stream()), one_line(im.self_ty.to_token_stream())),
                                        "lines": lines_json(&print_lines(k2.to_token_stream(), 0, true)), "src_line": line, "rewrites": []}));
                                }
                            }
                        }
                    }
                }
            }
        }
        return Err(format!("lost anchor: const `{}` not found", name));
    }
    // `Type::CONST` addresses an associated const of an inherent impl
    if kind == "const" {
        if let Some((ty, c)) = name.rsplit_once("::") {
            for it in items {
                if let syn::Item::Impl(im) = it {
                    if im.trait_.is_none() && last_ident_of_type(&im.self_ty).as_deref() == Some(ty) {
                        for ii in &im.items {
                            if let syn::ImplItem::Const(k) = ii {
                                if k.ident == c && cfg_true(&k.attrs) {
                                    let mut k2 = k.clone();
                                    k2.attrs.clear();
                                    k2.vis = syn::parse_quote!(pub);
                                    let line = k.ident.span().start().line;
                                    return Ok(json!({"assoc_of": ty, "lines": lines_json(&print_lines(k2.to_token_stream(), 0, true)), "src_line": line, "rewrites": []}));
                                }
                            }
                        }
                    }
                }
            }
            return Err(format!("lost anchor: const `{}` not found", name));
        }
    }
    for it in items {
        match (kind, it) {
            ("struct", syn::Item::Struct(s)) if s.ident == name && cfg_true(&s.attrs) => {
                let mut s2 = s.clone();
                StripLifetimes.visit_item_struct_mut(&mut s2);
                let mut tm = TypeMap { map: &tmap, log: vec![] };
                tm.visit_item_struct_mut(&mut s2);
                let mut fields = vec![];
                match &s2.fields {
                    syn::Fields::Named(n) => {
                        for f in &n.named {
                            if !cfg_true(&f.attrs) {
                                continue;
                            }
                            fields.push(json!({"name": f.ident.as_ref().unwrap().to_string(), "ty": one_line(f.ty.to_token_stream())}));
                        }
                    }
                    syn::Fields::Unnamed(u) => {
                        for (i, f) in u.unnamed.iter().enumerate() {
                            fields.push(json!({"name": i.to_string(), "ty": one_line(f.ty.to_token_stream()), "tuple": true}));
                        }
                    }
                    syn::Fields::Unit => {}
                }
                let mut g2 = s2.generics.clone();
                g2.where_clause = None;
                return Ok(json!({"ident": name, "generics": one_line(g2.to_token_stream()), "fields": fields,
                    "derives": derives_of(&s.attrs),
                    "tuple": matches!(s2.fields, syn::Fields::Unnamed(_)),
                    "src_line": s.ident.span().start().line, "rewrites": tm.log}));
            }
            ("enum", syn::Item::Enum(s)) if s.ident == name && cfg_true(&s.attrs) => {
                let mut s2 = s.clone();
                StripLifetimes.visit_item_enum_mut(&mut s2);
                let mut tm = TypeMap { map: &tmap, log: vec![] };
                tm.visit_item_enum_mut(&mut s2);
                s2.vis = syn::parse_quote!(pub);
                let ts = strip_attr_tokens(s2.to_token_stream());
                return Ok(json!({"lines": lines_json(&print_lines(ts, 0, true)), "derives": derives_of(&s.attrs), "src_line": s.ident.span().start().line, "rewrites": tm.log}));
            }
            ("const", syn::Item::Const(s)) if s.ident == name && cfg_true(&s.attrs) => {
                let mut s2 = s.clone();
                s2.vis = syn::parse_quote!(pub);
                let ts = strip_attr_tokens(s2.to_token_stream());
                return Ok(json!({"lines": lines_json(&print_lines(ts, 0, true)), "src_line": s.ident.span().start().line, "rewrites": []}));
            }
            ("type", syn::Item::Type(s)) if s.ident == name && cfg_true(&s.attrs) => {
                let mut s2 = s.clone();
                StripLifetimes.visit_item_type_mut(&mut s2);
                let mut tm = TypeMap { map: &tmap, log: vec![] };
                tm.visit_item_type_mut(&mut s2);
                s2.vis = syn::parse_quote!(pub);
                let ts = strip_attr_tokens(s2.to_token_stream());
                return Ok(json!({"lines": lines_json(&print_lines(ts, 0, true)), "src_line": s.ident.span().start().line, "rewrites": tm.log}));
            }
            _ => {}
        }
    }
    Err(format!("lost anchor: {} `{}` not found in the working tree", kind, name))
}
