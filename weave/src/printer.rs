//! Token printer: one statement per line, each line tagged with the source line of its first token
//! that still carries a real span (tokens made by rewrites have line 0 and inherit the last one).

use proc_macro2::{Delimiter, Spacing, TokenStream, TokenTree};
use serde_json::{json, Value};

pub struct Printer {
    pub lines: Vec<(String, usize)>,
    cur: String,
    cur_line: usize,
    last_src: usize,
    indent: usize,
    prev: Prev,
    arm_commas: bool,
}

#[derive(Clone, PartialEq)]
enum Prev {
    Start,
    Ident(String),
    Punct(char, bool), // char, joint
    Lit,
    Close(char),
    Open,
}

const KEYWORDS: &[&str] = &[
    "if", "while", "match", "return", "in", "let", "for", "loop", "else", "break", "as", "mut", "ref", "move", "continue",
    "unsafe", "where", "impl", "fn", "pub", "use", "mod", "struct", "enum", "type", "const", "static", "dyn",
];

impl Printer {
    pub fn new(indent: usize) -> Self {
        Printer { lines: vec![], cur: String::new(), cur_line: 0, last_src: 0, indent, prev: Prev::Start, arm_commas: false }
    }

    fn newline(&mut self) {
        if !self.cur.trim().is_empty() {
            let l = if self.cur_line != 0 { self.cur_line } else { self.last_src };
            let text = format!("{}{}", "    ".repeat(self.indent_for_line()), self.cur.trim());
            self.lines.push((text, l));
        }
        self.cur.clear();
        self.cur_line = 0;
        self.prev = Prev::Start;
    }

    fn indent_for_line(&self) -> usize {
        self.indent
    }

    fn note_span(&mut self, line: usize) {
        if line > 1 {
            if self.cur_line == 0 {
                self.cur_line = line;
            }
            self.last_src = line;
        }
    }

    fn push(&mut self, s: &str, space_before: bool) {
        if space_before && !self.cur.is_empty() && !self.cur.ends_with(' ') {
            self.cur.push(' ');
        }
        self.cur.push_str(s);
    }

    pub fn tokens(&mut self, ts: TokenStream, in_brace: bool) {
        let toks: Vec<TokenTree> = ts.into_iter().collect();
        let n = toks.len();
        let mut i = 0;
        while i < n {
            let tt = &toks[i];
            match tt {
                TokenTree::Ident(id) => {
                    self.note_span(id.span().start().line);
                    let s = id.to_string();
                    let sp = match &self.prev {
                        Prev::Start | Prev::Open => false,
                        Prev::Punct('.', false) => !self.cur.ends_with('.') || self.cur.ends_with(".."),
                        Prev::Punct(':', false) => !self.cur.ends_with("::"),
                        Prev::Punct('\'', _) => false,
                        Prev::Punct('#', _) | Prev::Punct('$', _) => false,
                        _ => true,
                    };
                    self.push(&s, sp);
                    self.prev = Prev::Ident(s);
                }
                TokenTree::Literal(l) => {
                    self.note_span(l.span().start().line);
                    let sp = match &self.prev {
                        Prev::Start | Prev::Open => false,
                        Prev::Punct('.', false) => !self.cur.ends_with('.') || self.cur.ends_with(".."),
                        _ => true,
                    };
                    self.push(&l.to_string(), sp);
                    self.prev = Prev::Lit;
                }
                TokenTree::Punct(p) => {
                    self.note_span(p.span().start().line);
                    let c = p.as_char();
                    let joint = p.spacing() == Spacing::Joint;
                    let prev_joint = matches!(self.prev, Prev::Punct(_, true));
                    let sp = if prev_joint {
                        false
                    } else {
                        match c {
                            '.' => {
                                // `..` ranges keep spaces; method/field dots do not
                                joint && !matches!(self.prev, Prev::Start | Prev::Open)
                            }
                            ',' | ';' | '?' => false,
                            ':' => false,
                            _ => !matches!(self.prev, Prev::Start | Prev::Open),
                        }
                    };
                    // a field/method dot directly after a range `..` would be ambiguous; never happens in practice
                    let mut b = [0u8; 4];
                    self.push(c.encode_utf8(&mut b), sp);
                    self.prev = Prev::Punct(c, joint);
                    if c == ';' && in_brace {
                        self.newline();
                    }
                    if c == ',' && in_brace && self.arm_commas {
                        self.newline();
                    }
                }
                TokenTree::Group(g) => {
                    self.note_span(g.span_open().start().line);
                    match g.delimiter() {
                        Delimiter::Brace => {
                            self.push("{", true);
                            let inner = g.stream();
                            if inner.is_empty() {
                                self.push("}", false);
                                self.prev = Prev::Close('}');
                            } else {
                                self.newline();
                                self.indent += 1;
                                let was = self.arm_commas;
                                self.arm_commas = has_fat_arrow(&inner);
                                self.tokens(inner, true);
                                self.arm_commas = was;
                                self.newline();
                                self.indent -= 1;
                                self.push("}", false);
                                self.prev = Prev::Close('}');
                                // a brace group that ends a statement-like construct: break the line unless
                                // something that continues the expression follows
                                let cont = match toks.get(i + 1) {
                                    Some(TokenTree::Ident(id)) => id == "else",
                                    Some(TokenTree::Punct(p)) => matches!(p.as_char(), '.' | ',' | ';' | '?' | '=' | ')' ),
                                    Some(TokenTree::Group(_)) => false,
                                    Some(TokenTree::Literal(_)) => false,
                                    None => false,
                                };
                                if in_brace && !cont {
                                    self.newline();
                                }
                            }
                        }
                        Delimiter::Parenthesis | Delimiter::Bracket => {
                            let (o, c) = if g.delimiter() == Delimiter::Parenthesis { ("(", ")") } else { ("[", "]") };
                            let sp = match &self.prev {
                                Prev::Ident(s) => KEYWORDS.contains(&s.as_str()),
                                Prev::Close(_) => false,
                                Prev::Punct('!', _) => false,
                                Prev::Punct('.', _) => false,
                                Prev::Punct('>', _) => false,
                                Prev::Punct('#', _) => false,
                                Prev::Start | Prev::Open => false,
                                _ => true,
                            };
                            self.push(o, sp);
                            self.prev = Prev::Open;
                            self.tokens(g.stream(), false);
                            self.push(c, false);
                            self.prev = Prev::Close(c.chars().next().unwrap());
                        }
                        Delimiter::None => {
                            self.tokens(g.stream(), in_brace);
                        }
                    }
                }
            }
            i += 1;
        }
    }

    pub fn finish(mut self) -> Vec<(String, usize)> {
        self.newline();
        self.lines
    }
}

fn has_fat_arrow(ts: &TokenStream) -> bool {
    let toks: Vec<TokenTree> = ts.clone().into_iter().collect();
    for w in toks.windows(2) {
        if let (TokenTree::Punct(a), TokenTree::Punct(b)) = (&w[0], &w[1]) {
            if a.as_char() == '=' && a.spacing() == Spacing::Joint && b.as_char() == '>' {
                return true;
            }
        }
    }
    false
}

pub fn print_lines(ts: TokenStream, indent: usize, in_brace: bool) -> Vec<(String, usize)> {
    let mut p = Printer::new(indent);
    p.tokens(ts, in_brace);
    p.finish()
}

pub fn lines_json(lines: &[(String, usize)]) -> Value {
    Value::Array(lines.iter().map(|(t, l)| json!([t, l])).collect())
}

pub fn one_line(ts: TokenStream) -> String {
    let ls = print_lines(ts, 0, false);
    ls.into_iter().map(|(t, _)| t).collect::<Vec<_>>().join(" ")
}
