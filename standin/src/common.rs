//! Shared pieces of the bounded native stand-ins: an instrumented byte source, a counting allocator, failure records.
use std::alloc::{GlobalAlloc, Layout, System};
use std::cell::Cell;
use std::io::{self, Read};
use std::rc::Rc;
use std::sync::atomic::{AtomicUsize, Ordering};

// ---------------------------------------------------------------- counting allocator (C05, C10, C12)
pub struct Counting;
static LIVE: AtomicUsize = AtomicUsize::new(0);
static PEAK: AtomicUsize = AtomicUsize::new(0);
/// a single request above this is refused by ending the process with a diagnostic (an abort would carry no message)
pub static ALLOC_CAP: AtomicUsize = AtomicUsize::new(6 << 30);
pub static REPLAY_MODE: AtomicUsize = AtomicUsize::new(0);
/// the property this run was started for (number; 0 = all): a case the run has to give up on is reported under it
pub static PROP_NO: AtomicUsize = AtomicUsize::new(0);
pub static HEARTBEAT: AtomicUsize = AtomicUsize::new(0);
static CURRENT: std::sync::Mutex<String> = std::sync::Mutex::new(String::new());

/// what is running now: `check\x1fdescription\x1freplay args joined by \x1e`; used when the process has to give up on a case
pub fn set_current(what: &str) {
    CASE_IS_BYTES.store(0, Ordering::Relaxed);
    if let Ok(mut g) = CURRENT.lock() {
        g.clear();
        g.push_str(what);
    }
}
pub struct CaseBytes {
    pub check: &'static str,
    pub name: &'static str,
    pub input: Vec<u8>,
    pub sched: Option<Sched>,
}
static CASE_BYTES: std::sync::Mutex<CaseBytes> = std::sync::Mutex::new(CaseBytes { check: "", name: "", input: Vec::new(), sched: None });
static CASE_IS_BYTES: AtomicUsize = AtomicUsize::new(0);
/// cheapest form: the raw input is copied; the text is only built if the run has to give up on this case
pub fn set_case_bytes(check: &'static str, name: &'static str, input: &[u8], sched: Sched) {
    if let Ok(mut g) = CASE_BYTES.lock() {
        g.check = check;
        g.name = name;
        g.input.clear();
        g.input.extend_from_slice(input);
        g.sched = Some(sched);
    }
    CASE_IS_BYTES.store(1, Ordering::Relaxed);
    HEARTBEAT.fetch_add(1, Ordering::Relaxed);
}
pub type CaseFmt = fn(&[u8], &[i64]) -> (String, String, Vec<String>);
pub struct CaseRaw {
    pub fmt: Option<CaseFmt>,
    pub bytes: Vec<u8>,
    pub nums: Vec<i64>,
}
static CASE_RAW: std::sync::Mutex<CaseRaw> = std::sync::Mutex::new(CaseRaw { fmt: None, bytes: Vec::new(), nums: Vec::new() });
/// cheap record for suites with millions of cases: raw bytes and numbers, turned into (check, description, replay arguments) by `fmt` only when needed
pub fn set_case_raw(fmt: CaseFmt, bytes: &[u8], nums: &[i64]) {
    if let Ok(mut g) = CASE_RAW.lock() {
        g.fmt = Some(fmt);
        g.bytes.clear();
        g.bytes.extend_from_slice(bytes);
        g.nums.clear();
        g.nums.extend_from_slice(nums);
    }
    CASE_IS_BYTES.store(2, Ordering::Relaxed);
    HEARTBEAT.fetch_add(1, Ordering::Relaxed);
}
/// like set_case, but the text is written into the existing buffer by `f` (no allocation; for suites with millions of cases)
pub fn set_case_with(f: impl FnOnce(&mut String)) {
    CASE_IS_BYTES.store(0, Ordering::Relaxed);
    if let Ok(mut g) = CURRENT.lock() {
        g.clear();
        f(&mut g);
    }
    HEARTBEAT.fetch_add(1, Ordering::Relaxed);
}
pub fn set_case(check: &str, desc: &str, replay: &[String]) {
    set_current(&format!("{}\x1f{}\x1f{}", check, desc, replay.join("\x1e")));
    HEARTBEAT.fetch_add(1, Ordering::Relaxed);
}
/// ends the process with a one-failure report for the current case (the normal report cannot be completed)
pub fn give_up(reason: &str) -> ! {
    // raise the cap so that printing cannot recurse into this path
    ALLOC_CAP.store(usize::MAX / 2, Ordering::Relaxed);
    let mut from_bytes = String::new();
    if CASE_IS_BYTES.load(Ordering::Relaxed) == 1 {
        if let Ok(c) = CASE_BYTES.try_lock() {
            let mut args = vec![hex(&c.input)];
            if let Some(s) = c.sched {
                args.extend(s.args());
            }
            from_bytes = format!("{}\x1f{} input {:?} under {:?}\x1f{}", c.check, c.name, show(&c.input), c.sched, args.join("\x1e"));
        }
    }
    if CASE_IS_BYTES.load(Ordering::Relaxed) == 2 {
        if let Ok(c) = CASE_RAW.try_lock() {
            if let Some(f) = c.fmt {
                let (check, desc, args) = f(&c.bytes, &c.nums);
                from_bytes = format!("{}\x1f{}\x1f{}", check, desc, args.join("\x1e"));
            }
        }
    }
    let g = CURRENT.try_lock();
    let cur: &str = if !from_bytes.is_empty() { from_bytes.as_str() } else { g.as_ref().map(|g| g.as_str()).unwrap_or("") };
    let mut it = cur.split('\x1f');
    let check = it.next().unwrap_or("");
    let desc = it.next().unwrap_or("");
    let replay: Vec<&str> = it.next().unwrap_or("").split('\x1e').filter(|s| !s.is_empty()).collect();
    let check = if check.is_empty() || !check.starts_with('C') { "C05 terminates with bounded resources" } else { check };
    // not terminating (or exhausting memory) breaks whatever property the run was checking: the call never delivers its result
    let pn = PROP_NO.load(Ordering::Relaxed);
    let renamed = if pn > 0 { format!("C{:02}{}", pn, &check[3..]) } else { check.to_string() };
    let check = renamed.as_str();
    if REPLAY_MODE.load(Ordering::Relaxed) != 0 {
        println!("FAILS {}: {}: {}", check, desc, reason);
        std::process::exit(1);
    }
    println!(
        "{{\"distinct_inputs\":0,\"distinct_nontrivial\":0,\"parser_runs\":0,\"bound\":\"the run was cut short by the failing case\",\"failures\":[{{\"check\":{},\"input\":{},\"replay\":[{}],\"detail\":{}}}]}}",
        json_str(check),
        json_str(if desc.is_empty() { cur } else { desc }),
        replay.iter().map(|s| json_str(s)).collect::<Vec<_>>().join(","),
        json_str(reason)
    );
    std::process::exit(0);
}
pub fn start_watchdog(seconds: u64) {
    std::thread::spawn(move || {
        let mut last = HEARTBEAT.load(Ordering::Relaxed);
        let mut idle = 0u64;
        loop {
            std::thread::sleep(std::time::Duration::from_millis(500));
            let h = HEARTBEAT.load(Ordering::Relaxed);
            if h == last {
                idle += 1;
                if idle >= 2 * seconds {
                    give_up(&format!("no progress for {} seconds: the call does not terminate", seconds));
                }
            } else {
                idle = 0;
                last = h;
            }
        }
    });
}
fn over_cap(size: usize) -> ! {
    let live = LIVE.load(Ordering::Relaxed);
    give_up(&format!("a request of {} bytes with {} bytes live exceeds the memory cap of this run", size, live))
}
unsafe impl GlobalAlloc for Counting {
    unsafe fn alloc(&self, l: Layout) -> *mut u8 {
        let cap = ALLOC_CAP.load(Ordering::Relaxed);
        if l.size() > cap || LIVE.load(Ordering::Relaxed) + l.size() > cap {
            over_cap(l.size());
        }
        let p = System.alloc(l);
        if !p.is_null() {
            let v = LIVE.fetch_add(l.size(), Ordering::Relaxed) + l.size();
            PEAK.fetch_max(v, Ordering::Relaxed);
        }
        p
    }
    unsafe fn dealloc(&self, p: *mut u8, l: Layout) {
        LIVE.fetch_sub(l.size(), Ordering::Relaxed);
        System.dealloc(p, l)
    }
    unsafe fn realloc(&self, p: *mut u8, l: Layout, new: usize) -> *mut u8 {
        let cap = ALLOC_CAP.load(Ordering::Relaxed);
        if new > cap || LIVE.load(Ordering::Relaxed) + new > cap + l.size() {
            over_cap(new);
        }
        let q = System.realloc(p, l, new);
        if !q.is_null() {
            if new >= l.size() {
                let v = LIVE.fetch_add(new - l.size(), Ordering::Relaxed) + (new - l.size());
                PEAK.fetch_max(v, Ordering::Relaxed);
            } else {
                LIVE.fetch_sub(l.size() - new, Ordering::Relaxed);
            }
        }
        q
    }
}
/// resets the peak to the current live size and returns that size
pub fn mem_mark() -> usize {
    let v = LIVE.load(Ordering::Relaxed);
    PEAK.store(v, Ordering::Relaxed);
    v
}
/// bytes allocated above the mark at the highest point since the mark
pub fn mem_peak_since(mark: usize) -> usize {
    PEAK.load(Ordering::Relaxed).saturating_sub(mark)
}

// ---------------------------------------------------------------- instrumented source
#[derive(Clone, Copy, PartialEq, Eq, Debug)]
pub enum Mode {
    /// at most this many bytes per read
    Step(usize),
    /// one line (up to and including the next LF) per read
    Lines,
}
#[derive(Clone, Copy, PartialEq, Eq, Debug)]
pub struct Sched {
    pub chunk: usize,
    pub mode: Mode,
    /// the source fails (with the error kind of that index in KINDS) instead of delivering the byte at this offset
    pub fail_at: Option<(usize, usize)>,
    /// every n-th call (n > 0) is answered with ErrorKind::Interrupted before anything else happens
    pub interrupt: usize,
}
pub const KINDS: [io::ErrorKind; 4] = [io::ErrorKind::Other, io::ErrorKind::UnexpectedEof, io::ErrorKind::BrokenPipe, io::ErrorKind::TimedOut];
pub const ONE_SHOT: Sched = Sched { chunk: 16384, mode: Mode::Step(1 << 20), fail_at: None, interrupt: 0 };
impl Sched {
    pub fn args(&self) -> Vec<String> {
        vec![
            self.chunk.to_string(),
            match self.mode {
                Mode::Step(n) => n.to_string(),
                Mode::Lines => "lines".into(),
            },
            match self.fail_at {
                Some((k, kind)) => format!("{}:{}", k, kind),
                None => "-".into(),
            },
            self.interrupt.to_string(),
        ]
    }
    pub fn from_args(a: &[String]) -> Sched {
        Sched {
            chunk: a[0].parse().unwrap(),
            mode: if a[1] == "lines" { Mode::Lines } else { Mode::Step(a[1].parse().unwrap()) },
            fail_at: if a[2] == "-" {
                None
            } else {
                let mut it = a[2].split(':');
                Some((it.next().unwrap().parse().unwrap(), it.next().map(|s| s.parse().unwrap()).unwrap_or(0)))
            },
            interrupt: a[3].parse().unwrap(),
        }
    }
}
#[derive(Default)]
pub struct Meter {
    pub delivered: Cell<usize>,
    pub calls: Cell<usize>,
    pub successful_reads: Cell<usize>,
    pub calls_after_end: Cell<usize>,
    pub ended: Cell<bool>,
    pub failed: Cell<bool>,
    pub last_read: Cell<usize>,
}
pub struct Src {
    pub data: Vec<u8>,
    pub pos: usize,
    pub sched: Sched,
    pub meter: Rc<Meter>,
}
impl Src {
    pub fn new(data: &[u8], sched: Sched) -> (Src, Rc<Meter>) {
        let m = Rc::new(Meter::default());
        (Src { data: data.to_vec(), pos: 0, sched, meter: m.clone() }, m)
    }
}
impl Read for Src {
    fn read(&mut self, buf: &mut [u8]) -> io::Result<usize> {
        let m = &self.meter;
        m.calls.set(m.calls.get() + 1);
        if m.ended.get() {
            m.calls_after_end.set(m.calls_after_end.get() + 1);
        }
        if self.sched.interrupt > 0 && m.calls.get() % self.sched.interrupt == 0 && !m.ended.get() {
            return Err(io::Error::new(io::ErrorKind::Interrupted, "injected interrupt"));
        }
        let limit = self.sched.fail_at.map(|f| f.0).unwrap_or(self.data.len()).min(self.data.len());
        if self.pos >= limit {
            m.ended.set(true);
            if let Some((_, kind)) = self.sched.fail_at {
                m.failed.set(true);
                return Err(io::Error::new(KINDS[kind % KINDS.len()], "injected failure"));
            }
            return Ok(0);
        }
        if buf.is_empty() {
            return Ok(0);
        }
        let want = match self.sched.mode {
            Mode::Step(n) => n,
            Mode::Lines => self.data[self.pos..limit].iter().position(|&b| b == b'\n').map(|i| i + 1).unwrap_or(limit - self.pos),
        };
        let n = want.max(1).min(buf.len()).min(limit - self.pos);
        buf[..n].copy_from_slice(&self.data[self.pos..self.pos + n]);
        // a Read implementation may use the rest of the slice as scratch space: leave digits and letters there
        for (i, b) in buf[n..].iter_mut().take(16).enumerate() {
            *b = b"7z"[i % 2];
        }
        self.pos += n;
        m.delivered.set(self.pos);
        m.last_read.set(n);
        m.successful_reads.set(m.successful_reads.get() + 1);
        Ok(n)
    }
}

// ---------------------------------------------------------------- failures and reports
#[derive(Debug, Clone)]
pub struct Failure {
    pub check: String,
    pub input: String,
    pub replay: Vec<String>,
    pub detail: String,
}
pub struct Report {
    pub failures: Vec<Failure>,
    pub runs: u64,
    pub inputs: u64,
    pub nontrivial: u64,
    pub bound: String,
}
/// JSON string literal (Rust's `{:?}` is not JSON: it writes `\u{2}` for control characters)
pub fn json_str(s: &str) -> String {
    let mut o = String::with_capacity(s.len() + 2);
    o.push('"');
    for c in s.chars() {
        match c {
            '"' => o.push_str("\\\""),
            '\\' => o.push_str("\\\\"),
            '\n' => o.push_str("\\n"),
            '\r' => o.push_str("\\r"),
            '\t' => o.push_str("\\t"),
            c if (c as u32) < 0x20 || c == '\u{7f}' => o.push_str(&format!("\\u{:04x}", c as u32)),
            c => o.push(c),
        }
    }
    o.push('"');
    o
}
impl Report {
    pub fn new() -> Report {
        Report { failures: vec![], runs: 0, inputs: 0, nontrivial: 0, bound: String::new() }
    }
    pub fn fail(&mut self, check: &str, input: String, replay: Vec<String>, detail: String) {
        // a few witnesses per check are enough; the first one is the replayed one
        if self.failures.iter().filter(|f| f.check == check).count() < 3 {
            self.failures.push(Failure { check: check.to_string(), input, replay, detail });
        }
    }
    pub fn to_json(&self) -> String {
        let fj: Vec<String> = self
            .failures
            .iter()
            .map(|f| {
                format!(
                    "{{\"check\":{},\"input\":{},\"replay\":[{}],\"detail\":{}}}",
                    json_str(&f.check),
                    json_str(&f.input.chars().take(3000).collect::<String>()),
                    f.replay.iter().map(|s| json_str(s)).collect::<Vec<_>>().join(","),
                    json_str(&f.detail.chars().take(1500).collect::<String>())
                )
            })
            .collect();
        format!(
            "{{\"distinct_inputs\":{},\"distinct_nontrivial\":{},\"parser_runs\":{},\"bound\":{},\"failures\":[{}]}}",
            self.inputs,
            self.nontrivial,
            self.runs,
            json_str(&self.bound),
            fj.join(",")
        )
    }
}
pub fn hex(b: &[u8]) -> String {
    b.iter().map(|x| format!("{:02x}", x)).collect()
}
pub fn unhex(s: &str) -> Vec<u8> {
    (0..s.len() / 2).map(|i| u8::from_str_radix(&s[2 * i..2 * i + 2], 16).unwrap()).collect()
}
pub fn show(b: &[u8]) -> String {
    String::from_utf8_lossy(b).into_owned()
}
pub fn panic_msg(p: Box<dyn std::any::Any + Send>) -> String {
    p.downcast_ref::<String>().cloned().or_else(|| p.downcast_ref::<&str>().map(|s| s.to_string())).unwrap_or_else(|| "panic".into())
}
/// xorshift generator for the seeded part of a bound
pub struct Rng(pub u64);
impl Rng {
    pub fn new(seed: u64) -> Rng {
        Rng(seed.wrapping_mul(0x9E3779B97F4A7C15) | 1)
    }
    pub fn next(&mut self) -> u64 {
        self.0 ^= self.0 << 13;
        self.0 ^= self.0 >> 7;
        self.0 ^= self.0 << 17;
        self.0
    }
    pub fn below(&mut self, n: usize) -> usize {
        (self.next() % n as u64) as usize
    }
}
