//! AIGER on structured values and documents: writer output parsed back (C03, value domain), exact numbers and the declared
//! limits (C06) on documents whose numbers are replaced one at a time.
use std::borrow::Cow;
use std::panic::{catch_unwind, AssertUnwindSafe};

use flussab::DeferredWriter;
use flussab_aiger::aig::{Aig, AndGate, Latch, OrderedAig, OrderedAndGate, OrderedLatch, Symbol, SymbolTarget};

use crate::common::*;
use crate::fmt::{run, to_bytes, End, FORMATS};

fn sym(t: SymbolTarget, n: &str) -> Symbol<'static> {
    Symbol { target: t, name: Cow::Owned(n.to_string()) }
}
fn ascii_values() -> Vec<Aig<u32>> {
    let mut v = vec![];
    let comments = [None, Some("hello"), Some("two\nlines"), Some("c\nc"), Some(" lead and trail "), Some("i0 not a symbol")];
    let names = ["in", "a b", "x", "0", "c", "name with  spaces "];
    for (k, c) in comments.iter().enumerate() {
        let n = names[k % names.len()];
        v.push(Aig {
            max_var_index: 3,
            inputs: vec![2],
            latches: vec![Latch { state: 4, next_state: 6, initialization: [None, Some(true), Some(false)][k % 3] }],
            outputs: vec![6, 7, 0, 1],
            bad_state_properties: vec![],
            invariant_constraints: vec![],
            justice_properties: vec![],
            fairness_constraints: vec![],
            and_gates: vec![AndGate { inputs: [2, 5], output: 6 }],
            symbols: vec![sym(SymbolTarget::Input(0), n), sym(SymbolTarget::Latch(0), "st"), sym(SymbolTarget::Output(3), n)],
            comment: c.map(|s| s.to_string()),
        });
        v.push(Aig {
            max_var_index: 6 + k,
            inputs: vec![2, 4],
            latches: vec![Latch { state: 6, next_state: 9, initialization: Some(k % 2 == 0) }, Latch { state: 8, next_state: 1, initialization: None }],
            outputs: vec![10],
            bad_state_properties: vec![3, 12],
            invariant_constraints: vec![5],
            justice_properties: vec![vec![2, 8], vec![], vec![13]],
            fairness_constraints: vec![7, 6],
            and_gates: vec![AndGate { inputs: [2, 4], output: 10 }, AndGate { inputs: [11, 6], output: 12 }],
            symbols: vec![
                sym(SymbolTarget::Input(1), n),
                sym(SymbolTarget::BadStateProperty(1), "b"),
                sym(SymbolTarget::InvariantConstraint(0), "c"),
                sym(SymbolTarget::JusticeProperty(2), "j"),
                sym(SymbolTarget::FairnessConstraint(1), "f"),
            ],
            comment: c.map(|s| s.to_string()),
        });
    }
    // the optional header fields are dropped from the right while they are zero
    for (b, c, j, f) in [(0, 0, 0, 0), (1, 0, 0, 0), (0, 1, 0, 0), (0, 0, 1, 0), (0, 0, 0, 1), (0, 1, 0, 1), (2, 0, 2, 0)] {
        v.push(Aig {
            max_var_index: 1,
            inputs: vec![2],
            latches: vec![],
            outputs: vec![],
            bad_state_properties: vec![3; b],
            invariant_constraints: vec![2; c],
            justice_properties: (0..j).map(|i| vec![2; i]).collect(),
            fairness_constraints: vec![1; f],
            and_gates: vec![],
            symbols: vec![],
            comment: None,
        });
    }
    // extremes of the literal type
    v.push(Aig {
        max_var_index: (u32::MAX as usize - 1) / 2,
        inputs: vec![u32::MAX - 1],
        latches: vec![],
        outputs: vec![u32::MAX, u32::MAX - 1],
        bad_state_properties: vec![],
        invariant_constraints: vec![],
        justice_properties: vec![],
        fairness_constraints: vec![],
        and_gates: vec![],
        symbols: vec![],
        comment: None,
    });
    v
}
fn binary_values() -> Vec<OrderedAig<u16>> {
    let mut v = vec![];
    let comments = [None, Some("hello"), Some("two\nlines"), Some("\u{80}\u{7ff} utf8")];
    // deltas on both sides of every 7-bit group boundary: gate k has output 2 * (inputs + latches + k + 1)
    for (k, c) in comments.iter().enumerate() {
        for inputs in [1usize, 63, 64, 65, 70, 127, 128, 129, 8191, 8192, 8193] {
            let first = 2 * (inputs + 1 + 1);
            let mut gates = vec![];
            // a chain of gates whose inputs reach back to literal 2 or 3, to the constants and to the immediately preceding literals
            for g in 0..4usize {
                let out = first + 2 * g;
                let hi = [out - 1, out - 2, 2, 3][(g + k) % 4] as u16;
                let lo = [0u16, 1, 2, 3][(g + 2 * k) % 4].min(hi);
                gates.push(OrderedAndGate { inputs: [hi, lo] });
            }
            v.push(OrderedAig {
                max_var_index: inputs + 1 + 4,
                input_count: inputs,
                latches: vec![OrderedLatch { next_state: (first + 1) as u16, initialization: [None, Some(true), Some(false)][k % 3] }],
                outputs: vec![(first + 6) as u16, 1],
                bad_state_properties: if k % 2 == 0 { vec![] } else { vec![2] },
                invariant_constraints: if k == 1 { vec![3, (first + 2) as u16] } else { vec![] },
                justice_properties: if k == 3 { vec![vec![2, 3], vec![]] } else { vec![] },
                fairness_constraints: if k >= 2 { vec![2, (first + 4) as u16, 1] } else { vec![] },
                and_gates: gates,
                symbols: vec![sym(SymbolTarget::Input(0), "in put"), sym(SymbolTarget::Latch(0), "l"), sym(SymbolTarget::Output(1), "o")],
                comment: c.map(|s| s.to_string()),
            });
        }
    }
    v
}

// ---------------------------------------------------------------- structured documents for C06
#[derive(Clone)]
struct AagDoc {
    header: Vec<String>,          // M I L O A [B C J F]
    inputs: Vec<String>,
    latches: Vec<(String, String)>,
    outputs: Vec<String>,
    gates: Vec<[String; 3]>,
}
impl AagDoc {
    fn numbers(&mut self) -> Vec<&mut String> {
        let mut v: Vec<&mut String> = vec![];
        for x in self.header.iter_mut() {
            v.push(x);
        }
        for x in self.inputs.iter_mut() {
            v.push(x);
        }
        for (a, b) in self.latches.iter_mut() {
            v.push(a);
            v.push(b);
        }
        for x in self.outputs.iter_mut() {
            v.push(x);
        }
        for g in self.gates.iter_mut() {
            for x in g.iter_mut() {
                v.push(x);
            }
        }
        v
    }
    fn render(&self) -> Vec<u8> {
        let mut s = format!("aag {}\n", self.header.join(" "));
        for x in &self.inputs {
            s += &format!("{}\n", x);
        }
        for (a, b) in &self.latches {
            s += &format!("{} {}\n", a, b);
        }
        for x in &self.outputs {
            s += &format!("{}\n", x);
        }
        for g in &self.gates {
            s += &format!("{} {} {}\n", g[0], g[1], g[2]);
        }
        s.into_bytes()
    }
    /// like render, with (line, first column, last column) of every number in the order of `numbers()`
    fn render_pos(&self) -> (Vec<u8>, Vec<(usize, usize, usize)>) {
        let mut s = String::from("aag");
        let mut pos = vec![];
        let mut line = 1usize;
        let mut col = 4usize;
        let mut put = |s: &mut String, x: &str, sep: &str, line: &mut usize, col: &mut usize| {
            s.push_str(sep);
            if sep == "\n" {
                *line += 1;
                *col = 1;
            } else {
                *col += sep.len();
            }
            pos.push((*line, *col, *col + x.len() - 1));
            s.push_str(x);
            *col += x.len();
        };
        for x in &self.header {
            put(&mut s, x, " ", &mut line, &mut col);
        }
        for x in &self.inputs {
            put(&mut s, x, "\n", &mut line, &mut col);
        }
        for (a, b) in &self.latches {
            put(&mut s, a, "\n", &mut line, &mut col);
            put(&mut s, b, " ", &mut line, &mut col);
        }
        for x in &self.outputs {
            put(&mut s, x, "\n", &mut line, &mut col);
        }
        for g in &self.gates {
            put(&mut s, &g[0], "\n", &mut line, &mut col);
            put(&mut s, &g[1], " ", &mut line, &mut col);
            put(&mut s, &g[2], " ", &mut line, &mut col);
        }
        s.push('\n');
        (s.into_bytes(), pos)
    }
    /// Some(expected Debug text pieces) when the document respects every limit of C06 for the literal type u32
    fn valid(&self) -> bool {
        let n = |s: &String| s.parse::<u128>().unwrap_or(u128::MAX);
        let h: Vec<u128> = self.header.iter().map(n).collect();
        let (m, i, l, o, a) = (h[0], h[1], h[2], h[3], h[4]);
        if h.iter().any(|&x| x > usize::MAX as u128) {
            return false;
        }
        if m > ((u32::MAX as u128) - 1) / 2 || i + l + a > m {
            return false;
        }
        if i != self.inputs.len() as u128 || l != self.latches.len() as u128 || o != self.outputs.len() as u128 || a != self.gates.len() as u128 {
            return false;
        }
        if h.len() > 5 && h[5..].iter().any(|&x| x != 0) {
            return false; // the document carries no such sections
        }
        let lit_ok = |x: u128| x <= 2 * m + 1;
        let def_ok = |x: u128| lit_ok(x) && x % 2 == 0 && x != 0;
        self.inputs.iter().all(|x| def_ok(n(x)))
            && self.latches.iter().all(|(s, t)| def_ok(n(s)) && lit_ok(n(t)))
            && self.outputs.iter().all(|x| lit_ok(n(x)))
            && self.gates.iter().all(|g| def_ok(n(&g[0])) && lit_ok(n(&g[1])) && lit_ok(n(&g[2])))
    }
    fn value(&self) -> Aig<u32> {
        let n = |s: &String| s.parse::<u32>().unwrap();
        Aig {
            max_var_index: self.header[0].parse().unwrap(),
            inputs: self.inputs.iter().map(n).collect(),
            latches: self.latches.iter().map(|(s, t)| Latch { state: n(s), next_state: n(t), initialization: Some(false) }).collect(),
            outputs: self.outputs.iter().map(n).collect(),
            bad_state_properties: vec![],
            invariant_constraints: vec![],
            justice_properties: vec![],
            fairness_constraints: vec![],
            and_gates: self.gates.iter().map(|g| AndGate { inputs: [n(&g[1]), n(&g[2])], output: n(&g[0]) }).collect(),
            symbols: vec![],
            comment: None,
        }
    }
}
fn st(x: &str) -> String {
    x.to_string()
}
fn aag_docs() -> Vec<AagDoc> {
    vec![
        AagDoc { header: vec![st("3"), st("1"), st("1"), st("1"), st("1")], inputs: vec![st("2")], latches: vec![(st("4"), st("6"))], outputs: vec![st("7")], gates: vec![[st("6"), st("2"), st("5")]] },
        AagDoc { header: vec![st("4"), st("2"), st("0"), st("2"), st("2"), st("0"), st("0")], inputs: vec![st("2"), st("4")], latches: vec![], outputs: vec![st("9"), st("0")], gates: vec![[st("6"), st("4"), st("2")], [st("8"), st("7"), st("3")]] },
        AagDoc { header: vec![st("2"), st("0"), st("2"), st("0"), st("0")], inputs: vec![], latches: vec![(st("2"), st("5")), (st("4"), st("1"))], outputs: vec![], gates: vec![] },
    ]
}
const AAG_NUMBERS: &[&str] = &["0", "1", "2", "3", "5", "6", "7", "8", "9", "10", "11", "12", "4294967294", "4294967295", "4294967296", "4294967297", "4294967298", "2147483647", "2147483648", "18446744073709551615", "18446744073709551616", "18446744073709551618", "36893488147419103234"];

#[derive(Clone)]
struct AigDoc {
    header: Vec<u128>, // M I L O A
    latches: Vec<u128>,
    outputs: Vec<u128>,
    deltas: Vec<[u128; 2]>,
}
fn varint(mut x: u128, out: &mut Vec<u8>) {
    loop {
        let b = (x & 0x7f) as u8;
        x >>= 7;
        if x == 0 {
            out.push(b);
            break;
        }
        out.push(b | 0x80);
    }
}
impl AigDoc {
    fn numbers(&mut self) -> Vec<&mut u128> {
        let mut v: Vec<&mut u128> = vec![];
        for x in self.header.iter_mut() {
            v.push(x);
        }
        for x in self.latches.iter_mut() {
            v.push(x);
        }
        for x in self.outputs.iter_mut() {
            v.push(x);
        }
        for d in self.deltas.iter_mut() {
            for x in d.iter_mut() {
                v.push(x);
            }
        }
        v
    }
    fn render(&self) -> Vec<u8> {
        let mut s = format!("aig {}\n", self.header.iter().map(|x| x.to_string()).collect::<Vec<_>>().join(" ")).into_bytes();
        for x in &self.latches {
            s.extend_from_slice(format!("{}\n", x).as_bytes());
        }
        for x in &self.outputs {
            s.extend_from_slice(format!("{}\n", x).as_bytes());
        }
        for d in &self.deltas {
            varint(d[0], &mut s);
            varint(d[1], &mut s);
        }
        s
    }
    /// the gates the document describes, when it respects the limits for the literal type u16
    fn valid(&self) -> Option<Vec<[u16; 2]>> {
        let h = &self.header;
        let (m, i, l, o, a) = (h[0], h[1], h[2], h[3], h[4]);
        if h.iter().any(|&x| x > usize::MAX as u128) || m > ((u16::MAX as u128) - 1) / 2 || i + l + a > m {
            return None;
        }
        if l != self.latches.len() as u128 || o != self.outputs.len() as u128 || a != self.deltas.len() as u128 {
            return None;
        }
        if self.latches.iter().chain(self.outputs.iter()).any(|&x| x > 2 * m + 1) {
            return None;
        }
        let mut gates = vec![];
        for (k, d) in self.deltas.iter().enumerate() {
            let out = 2 * (i + l + k as u128 + 1);
            if d[0] > out || d[1] > out - d[0] || d[0] > usize::MAX as u128 || d[1] > usize::MAX as u128 {
                return None;
            }
            gates.push([(out - d[0]) as u16, (out - d[0] - d[1]) as u16]);
        }
        Some(gates)
    }
}
fn aig_docs() -> Vec<AigDoc> {
    vec![
        AigDoc { header: vec![3, 1, 1, 1, 1], latches: vec![6], outputs: vec![7], deltas: vec![[2, 2]] },
        AigDoc { header: vec![5, 2, 0, 1, 3], latches: vec![], outputs: vec![10], deltas: vec![[2, 2], [1, 4], [3, 1]] },
        AigDoc { header: vec![72, 70, 1, 0, 1], latches: vec![0], outputs: vec![], deltas: vec![[128, 14]] },
        AigDoc { header: vec![2, 1, 1, 0, 0], latches: vec![5], outputs: vec![], deltas: vec![] },
    ]
}
const AIG_NUMBERS: &[u128] = &[0, 1, 2, 3, 4, 5, 6, 7, 8, 10, 11, 12, 13, 72, 73, 127, 128, 129, 143, 144, 145, 146, 16383, 16384, 16385, 32767, 32768, 65534, 65535, 65536, 65537, 1 << 32, (1 << 63) - 1, 1 << 63, u64::MAX as u128, 1 << 64, (1 << 64) + 1, (1 << 64) + 144, 1 << 70];

pub fn suite(which: &str, prop: &str, _tier: &str, _seed: u64) -> Report {
    let mut rep = Report::new();
    let all = prop == "all";
    start_watchdog(30);
    let aag = FORMATS.iter().find(|f| f.name == "aag").unwrap();
    let aig = FORMATS.iter().find(|f| f.name == "aig").unwrap();
    let scheds = [ONE_SHOT, Sched { chunk: 1, mode: Mode::Step(1), fail_at: None, interrupt: 0 }, Sched { chunk: 3, mode: Mode::Step(7), fail_at: None, interrupt: 0 }];
    if (all || prop == "C03") && which == "aag" {
        for (k, v) in ascii_values().iter().enumerate() {
            let r = catch_unwind(AssertUnwindSafe(|| to_bytes(|w| flussab_aiger::ascii::Writer::<u32>::new(w).write_aig(v))));
            rep.inputs += 1;
            rep.nontrivial += 1;
            let bytes = match r {
                Ok(b) => b,
                Err(p) => {
                    rep.fail("C03 parse(write(v)) == v (ascii AIGER)", format!("{:?}", v), vec![st("c03"), k.to_string()], format!("the writer panics: {}", panic_msg(p)));
                    continue;
                }
            };
            for &sc in scheds.iter() {
                let o = run(aag, &bytes, sc);
                rep.runs += 1;
                if o.end != End::Clean || o.items != vec![format!("{:?}", v)] {
                    rep.fail("C03 parse(write(v)) == v (ascii AIGER)", format!("{:?}", v), vec![st("c03"), k.to_string()], format!("written as {:?}, parsed as {:?} {:?}", show(&bytes), o.items, o.end));
                }
            }
        }
    }
    if (all || prop == "C03") && which == "aig" {
        for (k, v) in binary_values().iter().enumerate() {
            let r = catch_unwind(AssertUnwindSafe(|| {
                let mut out = vec![];
                {
                    let mut w = flussab_aiger::binary::Writer::<u16>::new(DeferredWriter::from_write(&mut out));
                    w.write_ordered_aig(v);
                    w.flush_defer_err();
                }
                out
            }));
            rep.inputs += 1;
            rep.nontrivial += 1;
            let bytes = match r {
                Ok(b) => b,
                Err(p) => {
                    rep.fail("C03 parse(write(v)) == v (binary AIGER)", format!("{:?}", v), vec![st("c03"), k.to_string()], format!("the writer panics: {}", panic_msg(p)));
                    continue;
                }
            };
            for &sc in scheds.iter() {
                let o = run(aig, &bytes, sc);
                rep.runs += 1;
                if o.end != End::Clean || o.items != vec![format!("{:?}", v)] {
                    rep.fail("C03 parse(write(v)) == v (binary AIGER)", format!("{:?}", v).chars().take(300).collect(), vec![st("c03"), k.to_string()], format!("written as {:?}, parsed as {:?} {:?}", hex(&bytes), o.items, o.end).chars().take(1200).collect());
                }
            }
        }
    }
    if (all || prop == "C03") && which == "aag" {
        // ascii rendering of an ordered circuit (Writer::write_ordered_aig): parsing it back gives the same circuit as the conversion Aig::from
        for (k, v) in binary_values().iter().enumerate() {
            let r = catch_unwind(AssertUnwindSafe(|| to_bytes(|w| flussab_aiger::ascii::Writer::<u16>::new(w).write_ordered_aig(v))));
            rep.inputs += 1;
            rep.nontrivial += 1;
            let bytes = match r {
                Ok(b) => b,
                Err(p) => {
                    rep.fail("C03 parse(write_ordered(v)) == v (ascii rendering of an ordered circuit)", format!("{:?}", v).chars().take(300).collect(), vec![st("c03o"), k.to_string()], format!("the writer panics: {}", panic_msg(p)));
                    continue;
                }
            };
            let want = format!("{:?}", Aig::<u16>::from(v.clone()));
            let got = catch_unwind(AssertUnwindSafe(|| {
                let src: &[u8] = &bytes;
                match flussab_aiger::ascii::Parser::<u16>::from_read(src, flussab_aiger::ascii::Config::default()) {
                    Ok(p) => match p.parse() {
                        Ok(a) => format!("{:?}", a),
                        Err(e) => format!("error: {}", e),
                    },
                    Err(e) => format!("error: {}", e),
                }
            }))
            .unwrap_or_else(|p| format!("panic: {}", panic_msg(p)));
            rep.runs += 1;
            if got != want {
                rep.fail("C03 parse(write_ordered(v)) == v (ascii rendering of an ordered circuit)", format!("{:?}", v).chars().take(300).collect(), vec![st("c03o"), k.to_string()], format!("written as {:?}; expected {}; got {}", show(&bytes), want, got).chars().take(1400).collect());
            }
        }
    }
    if (all || prop == "C06") && which == "aag" {
        for (di, d) in aag_docs().iter().enumerate() {
            let positions = d.clone().numbers().len();
            for pos in 0..positions {
                for (ni, num) in AAG_NUMBERS.iter().enumerate() {
                    let mut d2 = d.clone();
                    *d2.numbers()[pos] = num.to_string();
                    let t = d2.render();
                    rep.inputs += 1;
                    rep.nontrivial += 1;
                    for &sc in scheds.iter() {
                        let o = run(aag, &t, sc);
                        rep.runs += 1;
                        let mut a = vec![st("c06"), di.to_string(), pos.to_string(), ni.to_string()];
                        a.extend(sc.args());
                        if o.end == End::Clean {
                            if !d2.valid() {
                                rep.fail("C06 a document that breaks a declared limit or a number range is rejected (ascii AIGER)", show(&t), a, format!("accepted as {:?}", o.items));
                            } else if o.items != vec![format!("{:?}", d2.value())] {
                                rep.fail("C06 accepted numbers are the numbers written (ascii AIGER)", show(&t), a, format!("expected {:?}, got {:?}", d2.value(), o.items));
                            }
                        }
                    }
                }
            }
        }
    }
    if (all || prop == "C08") && which == "aag" {
        // one number token replaced by something that is no number: the error is reported on that token
        for (di, d) in aag_docs().iter().enumerate() {
            let positions = d.clone().numbers().len();
            for pos in 0..positions {
                for (bi, bad) in ["x", "@@", "1x", "-1"].iter().enumerate() {
                    let mut d2 = d.clone();
                    *d2.numbers()[pos] = bad.to_string();
                    let (t, where_) = d2.render_pos();
                    let (line, c0, c1) = where_[pos];
                    rep.inputs += 1;
                    rep.nontrivial += 1;
                    for &sc in scheds.iter() {
                        let o = run(aag, &t, sc);
                        rep.runs += 1;
                        let ok = matches!(&o.end, End::Syntax { line: el, column: ec, .. } if *el == line && *ec >= c0 && *ec <= c1);
                        if !ok {
                            let mut a = vec![st("c08"), di.to_string(), pos.to_string(), bi.to_string()];
                            a.extend(sc.args());
                            rep.fail("C08 a corrupted token is reported at its own line and column (ascii AIGER)", show(&t), a, format!("token at line {} columns {}..{} corrupted to {:?}: got {:?}", line, c0, c1, bad, o.end));
                        }
                    }
                }
            }
        }
    }
    if (all || prop == "C08") && (which == "aag" || which == "aig") {
        // one byte of a symbol name or of the comment replaced by 0xff (never valid in UTF-8): the error is reported at that byte
        // the second document has multi-byte characters in a name and in the comment: positions on the lines AFTER them are
        // checked (on a line that has non-ASCII text in front of the position the column convention is not pinned down)
        let f: &crate::fmt::Fmt = if which == "aag" { aag } else { aig };
        let docs: [&[u8]; 2] = if which == "aag" {
            [b"aag 1 1 0 1 0\n2\n3\ni0 name one\no0 out\nc\nfirst line\n\nthird\nlast\n", "aag 1 1 0 1 0\n2\n3\ni0 gr\u{f6}\u{df}e \u{20ac}\no0 out\nc\n\u{1f600} first\nsecond\n".as_bytes()]
        } else {
            [b"aig 1 1 0 1 0\n3\ni0 name one\no0 out\nc\nfirst line\n\nthird\nlast\n", "aig 1 1 0 1 0\n3\ni0 gr\u{f6}\u{df}e \u{20ac}\no0 out\nc\n\u{1f600} first\nsecond\n".as_bytes()]
        };
        for (dn, doc) in docs.iter().enumerate() {
        let doc: &[u8] = doc;
        let text_start = doc.windows(3).position(|w| w == b"i0 ").unwrap() + 3;
        for i in text_start..doc.len() {
            if doc[i] == b'\n' || doc[i] >= 0x80 {
                continue;
            }
            {
                let ls = doc[..i].iter().rposition(|&b| b == b'\n').map(|p| p + 1).unwrap_or(0);
                if doc[ls..i].iter().any(|&b| b >= 0x80) {
                    continue;
                }
            }
            // skip the fixed parts of the symbol table (`o0 `, the `c` line): only names and comment text are free text
            let line_start = doc[..i].iter().rposition(|&b| b == b'\n').map(|p| p + 1).unwrap_or(0);
            let in_symbol_head = (doc[line_start] == b'o' && i < line_start + 3) || (doc[line_start] == b'c' && doc[line_start + 1] == b'\n');
            if in_symbol_head {
                continue;
            }
            let mut t = doc.to_vec();
            t[i] = 0xff;
            let line = 1 + doc[..i].iter().filter(|&&b| b == b'\n').count();
            let col = i - line_start + 1;
            rep.inputs += 1;
            rep.nontrivial += 1;
            for &sc in scheds.iter() {
                let o = run(f, &t, sc);
                rep.runs += 1;
                let ok = matches!(&o.end, End::Syntax { line: el, column: ec, .. } if *el == line && *ec == col);
                if !ok {
                    let mut a = vec![st("c08u"), i.to_string(), dn.to_string()];
                    a.extend(sc.args());
                    rep.fail("C08 an invalid UTF-8 byte in a name or comment is reported at its own line and column", format!("{:?} with byte {} set to 0xff", show(doc), i), a, format!("expected {}:{}, got {:?}", line, col, o.end));
                }
            }
        }
        }
    }
    if (all || prop == "C06") && which == "aig" {
        for (di, d) in aig_docs().iter().enumerate() {
            let positions = d.clone().numbers().len();
            for pos in 0..positions {
                for (ni, num) in AIG_NUMBERS.iter().enumerate() {
                    let mut d2 = d.clone();
                    *d2.numbers()[pos] = *num;
                    let t = d2.render();
                    rep.inputs += 1;
                    rep.nontrivial += 1;
                    for &sc in scheds.iter() {
                        let o = run(aig, &t, sc);
                        rep.runs += 1;
                        let mut a = vec![st("c06"), di.to_string(), pos.to_string(), ni.to_string()];
                        a.extend(sc.args());
                        if o.end == End::Clean {
                            match d2.valid() {
                                None => rep.fail("C06 a document that breaks a declared limit or a number range is rejected (binary AIGER)", hex(&t), a, format!("accepted as {:?}", o.items)),
                                Some(g) => {
                                    let want: Vec<String> = g.iter().map(|x| format!("OrderedAndGate {{ inputs: [{}, {}] }}", x[0], x[1])).collect();
                                    let want = format!("and_gates: [{}]", want.join(", "));
                                    if !o.items[0].contains(&want) {
                                        rep.fail("C06 accepted numbers are the numbers written (binary AIGER)", hex(&t), a, format!("expected {}, got {:?}", want, o.items));
                                    }
                                }
                            }
                        }
                    }
                }
            }
        }
    }
    rep.bound = format!(
        "{}: C03: {} ascii / {} binary circuit values (comments with several lines, symbol names with blanks, every optional header field, latch initialisations, literal-type extremes, gate deltas on both sides of the 7-bit group boundaries) written and parsed back; C06: {} ascii / {} binary structured documents, every number position x {} / {} numbers around the limits; 3 read schedules",
        which,
        ascii_values().len(),
        binary_values().len(),
        aag_docs().len(),
        aig_docs().len(),
        AAG_NUMBERS.len(),
        AIG_NUMBERS.len()
    );
    rep
}
pub fn replay(which: &str, prop: &str, args: &[String]) -> i32 {
    let rep = suite(which, prop, "quick", 1);
    let mut code = 0;
    for f in &rep.failures {
        if f.replay == args {
            println!("FAILS {}: input {:?}: {}", f.check, f.input, f.detail);
            code = 1;
        }
    }
    if code == 0 {
        for f in rep.failures.iter().take(3) {
            println!("FAILS (other case) {}: input {:?}: {}", f.check, f.input, f.detail);
            code = 1;
        }
    }
    code
}
