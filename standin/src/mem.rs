//! Streaming memory (C10): parsers driven over generated streams of several MiB; the peak heap while streaming has to stay
//! below a bound in the chunk size and the largest item, whatever the length of the stream.
use std::io::{self, Read};

use flussab::text::LineReader;
use flussab::DeferredReader;

use crate::common::*;

/// produces `head`, then `line(k)` for k = 0, 1, 2, ... until `total` bytes were produced
struct Gen {
    pending: Vec<u8>,
    at: usize,
    k: usize,
    produced: usize,
    total: usize,
    line: fn(usize) -> String,
    max_read: usize,
}
impl Read for Gen {
    fn read(&mut self, buf: &mut [u8]) -> io::Result<usize> {
        if self.at == self.pending.len() {
            if self.produced >= self.total {
                return Ok(0);
            }
            self.pending = (self.line)(self.k).into_bytes();
            self.k += 1;
            self.at = 0;
            self.produced += self.pending.len();
        }
        let n = (self.pending.len() - self.at).min(buf.len()).min(self.max_read);
        buf[..n].copy_from_slice(&self.pending[self.at..self.at + n]);
        self.at += n;
        HEARTBEAT.fetch_add(1, std::sync::atomic::Ordering::Relaxed);
        Ok(n)
    }
}
fn cnf_clause(k: usize) -> String {
    format!("{} -{} {} 0\n", k % 97 + 1, k % 89 + 1, k % 7 + 1)
}
fn cnf_with_trailer(k: usize) -> String {
    match k {
        0 => "p cnf 100 2\n".into(),
        1 | 2 => cnf_clause(k),
        _ => format!("c trailing comment line number {}\n", k),
    }
}
/// a header that declares far more variables and clauses than the stream uses (declared counts must not size anything)
fn cnf_loose_header(k: usize) -> String {
    if k == 0 {
        "p cnf 2000000000 0\n".into()
    } else {
        cnf_clause(k)
    }
}
fn cnf_comments_between(k: usize) -> String {
    if k % 2 == 0 {
        cnf_clause(k)
    } else {
        format!("c comment {}\n", k)
    }
}
/// three clauses, then nothing but blank lines (empty, indented, CRLF) - no line is long, the run is
fn cnf_blank_run(k: usize) -> String {
    match k {
        0 => "p cnf 100 0\n".into(),
        1 | 2 | 3 => cnf_clause(k),
        _ => ["\n", "  \n", "\r\n", "\t\n"][k % 4].into(),
    }
}
fn cnf_comment_block(k: usize) -> String {
    if k % 5000 == 0 {
        cnf_clause(k)
    } else {
        format!("c a long run of comment lines, line {}\n", k)
    }
}
fn wcnf_clause(k: usize) -> String {
    format!("{} {} -{} 0\n", k % 13 + 1, k % 97 + 1, k % 89 + 1)
}
fn gcnf_clause(k: usize) -> String {
    format!("{{{}}} {} -{} 0\n", k % 5, k % 97 + 1, k % 89 + 1)
}
fn btor2_nodes(k: usize) -> String {
    if k == 0 {
        "1 sort bitvec 1\n".into()
    } else {
        format!("{} input 1 in{} ; comment {}\n", k + 1, k, k)
    }
}
/// every kind of line in rotation (operators with 1..3 operands, constants in three bases, justice with several conditions, symbols, comments)
fn btor2_all_kinds(k: usize) -> String {
    let id = k + 10;
    match k {
        0 => "1 sort bitvec 8\n2 sort array 1 1\n3 input 1 a\n4 input 1 b\n5 sort bitvec 1\n6 input 5 c\n7 state 1 s\n8 input 5\n9 input 5\n".into(),
        _ => match k % 12 {
            0 => format!("{} add 1 3 4 sym{}\n", id, k),
            1 => format!("{} not 1 3 ; comment {}\n", id, k),
            2 => format!("{} ite 1 6 3 4\n", id),
            3 => format!("{} const 1 10101010\n", id),
            4 => format!("{} constd 1 200\n", id),
            5 => format!("{} consth 1 ff\n", id),
            6 => format!("{} justice 3 6 8 9\n", id),
            7 => format!("{} bad 6 bad{}\n", id, k),
            8 => format!("{} slice 5 3 0 0\n", id),
            9 => format!("{} justice 1 6\n", id),
            10 => format!("{} constraint 6\n", id),
            _ => format!("{} fair 6\n; standalone comment {}\n", id, k),
        },
    }
}
/// input nodes, then a justice line that declares far more conditions than it holds (the parse ends there with an error)
fn btor2_short_justice(k: usize) -> String {
    match k {
        0 => "1 sort bitvec 1\n".into(),
        20000 => format!("{} justice 40000000 2\n", k + 1),
        _ => format!("{} input 1\n", k + 1),
    }
}
fn btor2_comments(k: usize) -> String {
    if k == 0 {
        "1 sort bitvec 1\n".into()
    } else {
        format!("; comment line {}\n\n", k)
    }
}
fn drive(name: &str, reader: DeferredReader<'static>) -> Result<usize, String> {
    let lr = LineReader::new(reader);
    let mut n = 0usize;
    macro_rules! dimacs {
        ($m:ident, $t:ty) => {{
            let mut p = flussab_cnf::$m::Parser::<$t>::new(lr, flussab_cnf::$m::Config::default()).map_err(|e| e.to_string())?;
            loop {
                match p.next_clause() {
                    Ok(Some(_)) => n += 1,
                    Ok(None) => break,
                    Err(e) => return Err(e.to_string()),
                }
            }
        }};
    }
    match name {
        "wcnf" => dimacs!(wcnf, i32),
        "gcnf" => dimacs!(gcnf, i32),
        "btor2" => {
            let mut p = flussab_btor2::Parser::new(lr, flussab_btor2::Config::default()).map_err(|e| e.to_string())?;
            loop {
                match p.next_line() {
                    Ok(Some(_)) => n += 1,
                    Ok(None) => break,
                    Err(e) => return Err(e.to_string()),
                }
            }
        }
        _ => dimacs!(cnf, i32),
    }
    Ok(n)
}
const STREAMS: &[(&str, &str, fn(usize) -> String)] = &[
    ("cnf", "clauses", cnf_clause),
    ("cnf", "header with 2 clauses, then only comment lines", cnf_with_trailer),
    ("cnf", "clauses and comment lines alternating", cnf_comments_between),
    ("cnf", "blocks of 5000 consecutive comment lines", cnf_comment_block),
    ("cnf", "header declaring 2000000000 variables, ordinary clauses", cnf_loose_header),
    ("cnf", "three clauses, then an unbroken run of blank lines", cnf_blank_run),
    ("wcnf", "clauses", wcnf_clause),
    ("gcnf", "clauses", gcnf_clause),
    ("btor2", "input nodes with symbols and comments", btor2_nodes),
    ("btor2", "comment lines and blank lines", btor2_comments),
    ("btor2", "every kind of line in rotation", btor2_all_kinds),
    ("btor2", "REJECTED: 20000 input nodes, then a justice line declaring 40000000 conditions and holding one", btor2_short_justice),
];
fn one(si: usize, chunk: usize, max_read: usize, total: usize) -> (Result<usize, String>, usize, usize) {
    let (fmt, _, line) = STREAMS[si];
    let g = Gen { pending: vec![], at: 0, k: 0, produced: 0, total, line, max_read };
    let mark = mem_mark();
    let mut reader = DeferredReader::from_read(g);
    reader.set_chunk_size(chunk);
    let r = drive(fmt, reader);
    (r, mem_peak_since(mark), 8 * chunk + 8 * 128 + (64 << 10))
}
pub fn suite(_prop: &str, tier: &str, _seed: u64) -> Report {
    let mut rep = Report::new();
    start_watchdog(60);
    let totals: &[usize] = if tier == "thorough" { &[1 << 20, 32 << 20] } else { &[1 << 20, 6 << 20] };
    for si in 0..STREAMS.len() {
        for &(chunk, max_read) in &[(4096usize, 1usize << 20), (512, 100), (16384, 4096)] {
            let mut peaks = vec![];
            for &total in totals {
                let args = vec![si.to_string(), chunk.to_string(), max_read.to_string(), total.to_string()];
                let desc = format!("{} stream ({}) of {} bytes, chunk size {}, reads of at most {} bytes", STREAMS[si].0, STREAMS[si].1, total, chunk, max_read);
                set_case("C10 streaming memory is bounded by chunk size and largest item", &desc, &args);
                let (r, peak, bound) = one(si, chunk, max_read, total);
                rep.runs += 1;
                rep.inputs += 1;
                rep.nontrivial += 1;
                if r.is_ok() == STREAMS[si].1.starts_with("REJECTED") {
                    rep.fail("C10 the generated stream is accepted (rejected where it is malformed)", desc.clone(), args.clone(), format!("{:?}", r));
                }
                if peak > bound {
                    rep.fail("C10 streaming memory is bounded by chunk size and largest item", desc, args, format!("peak heap {} bytes while streaming, bound {} (8 x chunk + 8 x longest line + 64 KiB)", peak, bound));
                }
                peaks.push(peak);
            }
        }
    }
    rep.bound = format!("mem: {} generated streams (cnf clauses, cnf header + comment trailer, alternating comments, blocks of consecutive comments, wcnf, gcnf, btor2 nodes, btor2 comments, btor2 all kinds of lines, btor2 ending in a justice line with a huge declared count) of {:?} bytes x 3 chunk/read-size combinations; peak heap (counting allocator) against 8 x chunk + 8 x 128 + 64 KiB", STREAMS.len(), totals);
    rep
}
pub fn replay(_prop: &str, args: &[String]) -> i32 {
    let v: Vec<usize> = args.iter().map(|x| x.parse().unwrap()).collect();
    let (r, peak, bound) = one(v[0], v[1], v[2], v[3]);
    println!("{} stream ({}): result {:?}, peak heap {} bytes, bound {}", STREAMS[v[0]].0, STREAMS[v[0]].1, r, peak, bound);
    if peak > bound || r.is_ok() == STREAMS[v[0]].1.starts_with("REJECTED") {
        println!("FAILS C10 streaming memory is bounded by chunk size and largest item");
        1
    } else {
        0
    }
}
