//! Bounded native stand-in for the BTOR2 line parser and writer (flussab-btor2 parser.rs / btor2.rs), which the
//! deductive machinery cannot reach (DESIGN.md 0.4). It runs the REAL crates from the working tree on every input of a
//! stated finite set under several read schedules and checks the runtime form of the properties. It is exhaustive
//! inside its bound, reports concrete failing inputs, and is never counted as a proof.
use std::cell::Cell;
use std::io::{self, Read};
use std::panic::{catch_unwind, AssertUnwindSafe};
use std::rc::Rc;

use flussab::text::LineReader;
use flussab::{DeferredReader, DeferredWriter};
use flussab_btor2::{Config, InnerParseError, Parser};

struct Src {
    data: Vec<u8>,
    pos: usize,
    step: usize,
    fail_at: Option<usize>,
    delivered: Rc<Cell<usize>>,
}
impl Read for Src {
    fn read(&mut self, buf: &mut [u8]) -> io::Result<usize> {
        let limit = self.fail_at.unwrap_or(self.data.len()).min(self.data.len());
        if self.pos >= limit {
            if self.fail_at.is_some() {
                return Err(io::Error::new(io::ErrorKind::Other, "injected failure"));
            }
            return Ok(0);
        }
        let n = self.step.min(buf.len()).min(limit - self.pos);
        buf[..n].copy_from_slice(&self.data[self.pos..self.pos + n]);
        self.pos += n;
        self.delivered.set(self.pos);
        Ok(n)
    }
}

#[derive(Clone, PartialEq, Eq, Debug)]
enum End {
    Clean,
    Syntax { line: usize, column: usize },
    Io,
    Panic(String),
}
#[derive(Clone, PartialEq, Eq, Debug)]
struct Outcome {
    items: Vec<String>,
    delivered_at_item: Vec<usize>,
    written: Vec<Vec<u8>>,
    end: End,
}

fn run(input: &[u8], chunk: usize, step: usize, fail_at: Option<usize>) -> Outcome {
    let delivered = Rc::new(Cell::new(0));
    let d2 = delivered.clone();
    let r = catch_unwind(AssertUnwindSafe(|| {
        let src = Src { data: input.to_vec(), pos: 0, step, fail_at, delivered: d2 };
        let mut reader = DeferredReader::from_read(src);
        reader.set_chunk_size(chunk);
        let mut items = vec![];
        let mut at = vec![];
        let mut written = vec![];
        let mut parser = match Parser::new(LineReader::new(reader), Config::default()) {
            Ok(p) => p,
            Err(_) => return Outcome { items, delivered_at_item: at, written, end: End::Io },
        };
        let end;
        loop {
            match parser.next_line() {
                Ok(Some(line)) => {
                    items.push(format!("{:?}", line));
                    at.push(delivered.get());
                    let mut out = vec![];
                    {
                        let mut w = DeferredWriter::from_write(&mut out);
                        line.write_into(&mut w);
                        w.flush_defer_err();
                    }
                    written.push(out);
                }
                Ok(None) => {
                    end = End::Clean;
                    break;
                }
                Err(e) => {
                    end = match *e {
                        InnerParseError::SyntaxError(s) => End::Syntax { line: s.location.line, column: s.location.column },
                        InnerParseError::IoError(_) => End::Io,
                    };
                    break;
                }
            }
            if items.len() > 64 {
                end = End::Panic("more items than input bytes".into());
                break;
            }
        }
        Outcome { items, delivered_at_item: at, written, end }
    }));
    match r {
        Ok(o) => o,
        Err(p) => {
            let msg = p.downcast_ref::<String>().cloned().or_else(|| p.downcast_ref::<&str>().map(|s| s.to_string())).unwrap_or_default();
            Outcome { items: vec![], delivered_at_item: vec![], written: vec![], end: End::Panic(msg) }
        }
    }
}

// ---- independent oracle pieces
/// end offsets (exclusive, after the newline or at the end of data) of the lines that carry an item, in order
fn item_line_ends(input: &[u8]) -> Vec<usize> {
    let mut out = vec![];
    let mut i = 0;
    while i < input.len() {
        // skip blanks between items (the parser skips spaces and newlines)
        while i < input.len() && (input[i] == b' ' || input[i] == b'\n') {
            i += 1;
        }
        if i >= input.len() {
            break;
        }
        while i < input.len() && input[i] != b'\n' {
            i += 1;
        }
        if i < input.len() {
            i += 1;
        }
        out.push(i);
    }
    out
}
fn line_lengths(input: &[u8]) -> Vec<usize> {
    input.split(|&b| b == b'\n').map(|l| l.len()).collect()
}

#[derive(Debug)]
struct Failure {
    check: &'static str,
    input: Vec<u8>,
    chunk: usize,
    step: usize,
    fail_at: Option<usize>,
    detail: String,
}

fn check_input(input: &[u8], which: &str, failures: &mut Vec<Failure>, runs: &mut u64) {
    let base = run(input, 16384, 1 << 20, None);
    *runs += 1;
    let fail = |failures: &mut Vec<Failure>, check, chunk, step, fail_at, detail: String| {
        if failures.len() < 40 {
            failures.push(Failure { check, input: input.to_vec(), chunk, step, fail_at, detail });
        }
    };
    // C05: no panic, on any schedule
    if which == "C05" || which == "all" {
        if let End::Panic(m) = &base.end {
            fail(failures, "C05 no panic", 16384, 1 << 20, None, m.clone());
        }
    }
    let schedules: [(usize, usize); 4] = [(1, 1), (2, 3), (3, 2), (7, 1 << 20)];
    for &(chunk, step) in schedules.iter() {
        let o = run(input, chunk, step, None);
        *runs += 1;
        if which == "C05" || which == "all" {
            if let End::Panic(m) = &o.end {
                fail(failures, "C05 no panic", chunk, step, None, m.clone());
            }
        }
        // C01: items, end and error location do not depend on how the bytes arrive
        if (which == "C01" || which == "all") && (o.items != base.items || o.end != base.end) {
            fail(failures, "C01 same result for every read schedule", chunk, step, None, format!("one-shot: {:?} {:?}; this schedule: {:?} {:?}", base.items, base.end, o.items, o.end));
        }
    }
    // C08: a syntax error points into the input: 1 <= line <= lines + 1, 1 <= column <= length of that line + 1
    if which == "C08" || which == "all" {
        if let End::Syntax { line, column } = base.end {
            let ll = line_lengths(input);
            let ok = line >= 1 && line <= ll.len() && column >= 1 && column <= ll[line - 1] + 1;
            if !ok {
                fail(failures, "C08 error location inside the input", 16384, 1 << 20, None, format!("reported {}:{}, line lengths {:?}", line, column, ll));
            }
        }
    }
    // C03: every parsed line, written and parsed again, is the same line (and a clean end follows)
    if which == "C03" || which == "all" {
        for (k, w) in base.written.iter().enumerate() {
            let again = run(w, 16384, 1 << 20, None);
            *runs += 1;
            if again.items.len() != 1 || again.items[0] != base.items[k] || again.end != End::Clean {
                fail(failures, "C03 parse(write(parse(t))) == parse(t)", 16384, 1 << 20, None, format!("item {:?} written as {:?} parses as {:?} {:?}", base.items[k], String::from_utf8_lossy(w), again.items, again.end));
            }
        }
    }
    // C09: with one byte per read, an item is handed out before anything past its own line was requested
    if which == "C09" || which == "all" {
        let o = run(input, 1, 1, None);
        *runs += 1;
        let ends = item_line_ends(input);
        for (k, &d) in o.delivered_at_item.iter().enumerate() {
            if k < ends.len() && d > ends[k] {
                fail(failures, "C09 no read past the line of the item", 1, 1, None, format!("item {} ({}) was returned after {} bytes had been delivered; its line ends at offset {}", k, o.items[k], d, ends[k]));
            }
        }
    }
    // C04: a source that fails after k bytes: never a clean end; a syntax error only if the fault-free prefix run has the same one
    if which == "C04" || which == "all" {
        for k in 0..=input.len() {
            for &(chunk, step) in [(16384usize, 1usize << 20), (1, 1)].iter() {
                let o = run(input, chunk, step, Some(k));
                *runs += 1;
                match &o.end {
                    End::Io => {}
                    End::Clean => fail(failures, "C04 a failing source never gives a clean end", chunk, step, Some(k), format!("items {:?}", o.items)),
                    End::Syntax { .. } => {
                        // legitimate only if the error lies in the delivered prefix: the full fault-free run reports the same
                        // error after the same items, and it could be decided from the first k bytes alone
                        let p = run(&input[..k], chunk, step, None);
                        *runs += 1;
                        let same_full = base.end == o.end && base.items.len() >= o.items.len() && base.items[..o.items.len()] == o.items[..];
                        let same_prefix_run = p.end == o.end;
                        if !(same_full || same_prefix_run) {
                            fail(failures, "C04 no syntax error caused by the failure", chunk, step, Some(k), format!("with fault: {:?} {:?}; fault-free: {:?} {:?}", o.items, o.end, base.items, base.end));
                        }
                    }
                    End::Panic(m) => fail(failures, "C05 no panic", chunk, step, Some(k), m.clone()),
                }
                // items handed out before the failure are items of the fault-free run
                if o.items.len() > base.items.len() || o.items[..] != base.items[..o.items.len()] {
                    // a truncated last line may legitimately parse differently only if it ends in an error; items must be a prefix
                    fail(failures, "C04 items before the failure are the fault-free items", chunk, step, Some(k), format!("with fault: {:?}; fault-free: {:?}", o.items, base.items));
                }
            }
        }
    }
}

const TOKENS: &[&str] = &[
    "1", "2", "3", "10", "0", "-1", " ", " ", "\n", "sort", "bitvec", "array", "input", "state", "init", "next", "bad", "constraint", "output", "fair",
    "justice", "add", "not", "ite", "slice", "uext", "const", "constd", "consth", "one", "ones", "zero", "101", "ff", "name", ";", "; c", "x", "eq", "concat",
    // lane boundaries of the 8-byte lowercase kernel: bytes next to `a`..`z`, upper case, runs of 7, 8 and 9 letters
    "az", "a`", "z{", "aZ", "abcdefg", "abcdefgh", "abcdefghi", "sort{", "inpuT",
];
const DOCS: &[&str] = &[
    "1 sort bitvec 1\n2 input 1 a ; comment\n3 state 1\n4 init 1 3 2\n5 next 1 3 2\n6 bad 2\n7 constraint 2\n",
    "1 sort bitvec 8\n2 sort array 1 1\n3 const 1 101\n4 constd 1 10\n5 consth 1 ff\n6 one 1\n7 ones 1\n8 zero 1\n",
    "1 sort bitvec 4\n2 input 1\n3 not 1 2\n4 add 1 2 3\n5 ite 1 2 3 4\n6 slice 1 2 3 0\n7 uext 1 2 4 sym\n8 justice 2 2 3\n9 fair 2\n10 output 2\n",
    "; only a comment\n\n  \n1 sort bitvec 1\n",
    "1 sort bitvec 1",
    "1 sort bitvec 1 ; no newline",
    "99999999999999999999999 sort bitvec 1\n",
    "1 sort bitvec 99999999999999999999999\n",
    "1 eq 1 2 3\n2 concat 1 2 3 name\n",
];

fn main() {
    let args: Vec<String> = std::env::args().collect();
    let which = args.get(1).map(|s| s.as_str()).unwrap_or("all").to_string();
    let tier = args.get(2).map(|s| s.as_str()).unwrap_or("quick").to_string();
    let seed: u64 = args.get(3).and_then(|s| s.parse().ok()).unwrap_or(1);
    std::panic::set_hook(Box::new(|_| {}));
    if which == "--replay" {
        // --replay <hex input> <chunk> <step> <fail_at or -> : prints the outcome of one run
        let input: Vec<u8> = (0..args[2].len() / 2).map(|i| u8::from_str_radix(&args[2][2 * i..2 * i + 2], 16).unwrap()).collect();
        let chunk: usize = args[3].parse().unwrap();
        let step: usize = args[4].parse().unwrap();
        let fail_at = args.get(5).and_then(|s| s.parse().ok());
        println!("input {:?}", String::from_utf8_lossy(&input));
        println!("this schedule: {:?}", run(&input, chunk, step, fail_at));
        println!("one-shot, no fault: {:?}", run(&input, 16384, 1 << 20, None));
        // re-evaluate the checks of the property on this one input
        let prop = args.get(6).cloned().unwrap_or("all".into());
        let mut failures = vec![];
        let mut runs = 0u64;
        check_input(&input, &prop, &mut failures, &mut runs);
        for f in &failures {
            println!("FAILS {}: chunk {} step {} fault {:?}: {}", f.check, f.chunk, f.step, f.fail_at, f.detail);
        }
        std::process::exit(if failures.is_empty() { 0 } else { 1 });
    }
    let mut failures = vec![];
    let mut runs = 0u64;
    let mut inputs: Vec<Vec<u8>> = vec![];
    // (a) every sequence of up to N tokens
    let n = if tier == "thorough" { 4 } else { 3 };
    let mut idx = vec![0usize; 0];
    loop {
        let mut s = Vec::new();
        for &i in &idx {
            s.extend_from_slice(TOKENS[i].as_bytes());
            s.push(b' ');
        }
        inputs.push(s.clone());
        if let Some(last) = s.last_mut() {
            *last = b'\n';
            inputs.push(s);
        }
        // next index vector (odometer, shorter sequences first)
        let mut k = idx.len();
        loop {
            if k == 0 {
                idx = vec![0; idx.len() + 1];
                break;
            }
            k -= 1;
            if idx[k] + 1 < TOKENS.len() {
                idx[k] += 1;
                for j in k + 1..idx.len() {
                    idx[j] = 0;
                }
                break;
            }
        }
        if idx.len() > n {
            break;
        }
    }
    // (b) curated documents, every prefix, and every single-byte substitution from a small byte set
    for d in DOCS {
        let b = d.as_bytes();
        for k in 0..=b.len() {
            inputs.push(b[..k].to_vec());
        }
        for i in 0..b.len() {
            for &c in [b' ', b'\n', b'0', b'9', b'a', b';', 0xffu8].iter() {
                let mut m = b.to_vec();
                m[i] = c;
                inputs.push(m);
            }
        }
    }
    // (c) seeded pseudo-random token sequences
    let mut x = seed.wrapping_mul(0x9E3779B97F4A7C15) | 1;
    let mut rnd = || {
        x ^= x << 13;
        x ^= x >> 7;
        x ^= x << 17;
        x
    };
    let extra = if tier == "thorough" { 20000 } else { 2000 };
    for _ in 0..extra {
        let len = 1 + (rnd() % 14) as usize;
        let mut s = Vec::new();
        for _ in 0..len {
            s.extend_from_slice(TOKENS[(rnd() % TOKENS.len() as u64) as usize].as_bytes());
            if rnd() % 4 != 0 {
                s.push(b' ');
            }
        }
        if rnd() % 2 == 0 {
            s.push(b'\n');
        }
        inputs.push(s);
    }
    let total = inputs.len();
    inputs.sort();
    inputs.dedup();
    let mut nontrivial = 0u64;
    for inp in &inputs {
        if inp.iter().any(|&b| b != b' ' && b != b'\n') {
            nontrivial += 1;
        }
        check_input(inp, &which, &mut failures, &mut runs);
    }
    let fj: Vec<String> = failures
        .iter()
        .map(|f| {
            format!(
                "{{\"check\":{:?},\"input_hex\":\"{}\",\"input\":{:?},\"chunk\":{},\"step\":{},\"fail_at\":{},\"detail\":{:?}}}",
                f.check,
                f.input.iter().map(|b| format!("{:02x}", b)).collect::<String>(),
                String::from_utf8_lossy(&f.input),
                f.chunk,
                f.step,
                f.fail_at.map(|k| k.to_string()).unwrap_or("null".into()),
                f.detail
            )
        })
        .collect();
    println!(
        "{{\"generated\":{},\"distinct_inputs\":{},\"distinct_nontrivial\":{},\"parser_runs\":{},\"bound\":\"token sequences of length <= {} over {} tokens (with and without final newline), {} curated documents with all prefixes and single-byte substitutions, {} seeded random token sequences; schedules (chunk,step) (16384,all) (1,1) (2,3) (3,2) (7,all); fault at every offset for C04\",\"failures\":[{}]}}",
        total,
        inputs.len(),
        nontrivial,
        runs,
        n,
        TOKENS.len(),
        DOCS.len(),
        extra,
        fj.join(",")
    );
}
