//! Bounded native stand-ins (DESIGN.md 0.4): the REAL crates of the working tree run on every input of a stated finite
//! set, under several read schedules and injected faults, against the runtime form of the properties. Exhaustive inside
//! the stated bound, reports concrete failing inputs that replay on the real code, and is never counted as a proof.
mod common;
mod aiger;
mod ctor;
mod dimacs;
mod fmt;
mod mem;
mod raw;
mod reader;
mod renum;
mod scan;
mod writer;

use common::*;

#[global_allocator]
static A: Counting = Counting;

fn kind_of(k: &str) -> &'static str {
    match k {
        "cnf" => "cnf",
        "wcnf" => "wcnf",
        "wcnf16" => {
            dimacs::NARROW.store(true, std::sync::atomic::Ordering::Relaxed);
            "wcnf"
        }
        _ => "gcnf",
    }
}

fn main() {
    let args: Vec<String> = std::env::args().collect();
    std::panic::set_hook(Box::new(|_| {}));
    // vp-standin <suite> <prop> <tier> <seed>          |  vp-standin --replay <suite> <prop> <args...>
    if args.get(1).map(|s| s.as_str()) == Some("--replay") {
        REPLAY_MODE.store(1, std::sync::atomic::Ordering::Relaxed);
        let suite = args[2].as_str();
        let prop = args[3].as_str();
        PROP_NO.store(prop.trim_start_matches('C').parse().unwrap_or(0), std::sync::atomic::Ordering::Relaxed);
        start_watchdog(25);
        let rest = &args[4..];
        let code = match suite.split_once(':') {
            Some(("fmt", f)) => fmt::replay(f, prop, rest),
            Some(("dimacs", k)) => dimacs::replay(kind_of(k), prop, rest),
            Some(("aiger", k)) => aiger::replay(k, prop, rest),
            _ if suite == "reader" => reader::replay(prop, rest),
            _ if suite == "writer" => writer::replay(prop, rest),
            _ if suite == "scan" => scan::replay(prop, rest),
            _ if suite == "mem" => mem::replay(prop, rest),
            _ if suite == "renumber" => renum::replay(prop, rest),
            _ if suite == "ctor" => ctor::replay(prop, rest),
            _ => {
                println!("unknown suite {}", suite);
                2
            }
        };
        std::process::exit(code);
    }
    let suite = args.get(1).cloned().unwrap_or_default();
    let prop = args.get(2).cloned().unwrap_or("all".into());
    let tier = args.get(3).cloned().unwrap_or("quick".into());
    let seed: u64 = args.get(4).and_then(|s| s.parse().ok()).unwrap_or(1);
    PROP_NO.store(prop.trim_start_matches('C').parse().unwrap_or(0), std::sync::atomic::Ordering::Relaxed);
    let rep = match suite.split_once(':') {
        Some(("fmt", f)) => fmt::suite(f, &prop, &tier, seed),
        Some(("dimacs", "satlog")) => dimacs::satlog_suite(&prop, &tier, seed),
        Some(("dimacs", k)) => dimacs::suite(kind_of(k), &prop, &tier, seed),
        Some(("aiger", k)) => aiger::suite(k, &prop, &tier, seed),
        _ if suite == "reader" => reader::suite(&prop, &tier, seed),
        _ if suite == "writer" => writer::suite(&prop, &tier, seed),
        _ if suite == "scan" => scan::suite(&prop, &tier, seed),
        _ if suite == "mem" => mem::suite(&prop, &tier, seed),
        _ if suite == "raw" => raw::suite(&prop, &tier, seed),
        _ if suite == "renumber" => renum::suite(&prop, &tier, seed),
        _ if suite == "ctor" => ctor::suite(&prop, &tier, seed),
        _ => {
            eprintln!("unknown suite {}", suite);
            std::process::exit(2);
        }
    };
    println!("{}", rep.to_json());
}
