//! DeferredWriter against a model of "the sink receives the written stream" (C11): every operation sequence up to a
//! length, with slice lengths around the buffer size, integers of every type, direct buffer writes, partial and failing sinks.
use std::cell::RefCell;
use std::io::{self, Write};
use std::panic::{catch_unwind, AssertUnwindSafe};
use std::rc::Rc;

use flussab::DeferredWriter;

use crate::common::*;

#[derive(Default)]
pub struct SinkLog {
    pub accepted: Vec<u8>,
    pub calls: usize,
    pub errors: usize,
    /// calls made while an error was still unreported
    pub calls_while_pending: usize,
    pub pending: bool,
    pub panicked_at: usize,
}
pub struct Sink {
    pub log: Rc<RefCell<SinkLog>>,
    /// at most this many bytes per call
    pub max: usize,
    /// fails once this many bytes were accepted (every call from then on until `heal` calls failed)
    pub fail_at: Option<usize>,
    pub heal: usize,
    pub interrupt: usize,
    /// the sink panics in its n-th call (1-based), after accepting half of what it was given
    pub panic_at: usize,
}
impl Write for Sink {
    fn write(&mut self, buf: &[u8]) -> io::Result<usize> {
        let mut l = self.log.borrow_mut();
        l.calls += 1;
        if l.pending {
            l.calls_while_pending += 1;
        }
        if self.panic_at > 0 && l.calls == self.panic_at {
            let n = buf.len() / 2;
            l.accepted.extend_from_slice(&buf[..n]);
            l.panicked_at = l.calls;
            drop(l);
            panic!("injected sink panic");
        }
        if self.interrupt > 0 && l.calls % self.interrupt == 0 {
            return Err(io::Error::new(io::ErrorKind::Interrupted, "injected interrupt"));
        }
        if let Some(k) = self.fail_at {
            if l.accepted.len() >= k && l.errors < self.heal {
                l.errors += 1;
                l.pending = true;
                return Err(io::Error::new(io::ErrorKind::BrokenPipe, "injected failure"));
            }
            let room = if l.errors < self.heal { k - l.accepted.len() } else { usize::MAX };
            let n = buf.len().min(self.max).min(room);
            l.accepted.extend_from_slice(&buf[..n]);
            return Ok(n);
        }
        let n = buf.len().min(self.max);
        l.accepted.extend_from_slice(&buf[..n]);
        Ok(n)
    }
    fn flush(&mut self) -> io::Result<()> {
        Ok(())
    }
}

#[derive(Clone, Copy, Debug, PartialEq, Eq)]
pub enum Op {
    W(usize),
    WTrait(usize),
    /// Write::write_all (the trait method, not write_all_defer_err)
    WAllTrait(usize),
    Direct(usize),
    Digits(usize),
    Flush,
    FlushTrait,
    Check,
}
pub const LENS: &[usize] = &[0, 1, 7, 16383, 16384, 16385, 40000];
const DIGITS: usize = 26;
fn digits(w: &mut DeferredWriter, k: usize) -> String {
    use flussab::write::text::ascii_digits as ad;
    macro_rules! one {
        ($v:expr) => {{
            let v = $v;
            ad(w, v);
            v.to_string()
        }};
    }
    match k {
        0 => one!(0u8),
        1 => one!(u8::MAX),
        2 => one!(i8::MIN),
        3 => one!(i8::MAX),
        4 => one!(u16::MAX),
        5 => one!(i16::MIN),
        6 => one!(u32::MAX),
        7 => one!(i32::MIN),
        8 => one!(i32::MAX),
        9 => one!(u64::MAX),
        10 => one!(i64::MIN),
        11 => one!(i64::MAX),
        12 => one!(u128::MAX),
        13 => one!(i128::MIN),
        14 => one!(i128::MAX),
        15 => one!(usize::MAX),
        16 => one!(isize::MIN),
        17 => one!(-1i32),
        18 => one!(10u32),
        19 => one!(99u8),
        20 => one!(100u16),
        21 => one!(-100i16),
        22 => one!(1_000_000_007u64),
        23 => one!(-9_999_999_999i64),
        24 => one!(10_000_000_000_000_000_000u64),
        _ => one!(0isize),
    }
}
pub fn all_ops() -> Vec<Op> {
    let mut v = vec![];
    for &l in LENS {
        v.push(Op::W(l));
    }
    v.push(Op::WTrait(5));
    v.push(Op::WTrait(16385));
    v.push(Op::WAllTrait(5));
    v.push(Op::WAllTrait(16385));
    v.push(Op::Direct(3));
    v.push(Op::Direct(16384));
    for k in [1, 9, 12, 13, 16, 17] {
        v.push(Op::Digits(k));
    }
    v.push(Op::Flush);
    v.push(Op::FlushTrait);
    v.push(Op::Check);
    v
}
#[derive(Clone, Copy, Debug)]
pub struct Cfg {
    pub max: usize,
    pub fail_at: Option<usize>,
    pub heal: usize,
    pub interrupt: usize,
    /// bytes written before the sequence starts, so that the sequence runs at a chosen fill level of the buffer
    pub prefill: usize,
    pub panic_at: usize,
}
fn subsequence(acc: &[u8], written: &[u8]) -> bool {
    let mut k = 0;
    for &b in acc {
        while k < written.len() && written[k] != b {
            k += 1;
        }
        if k == written.len() {
            return false;
        }
        k += 1;
    }
    true
}
fn op_str(ops: &[Op]) -> String {
    ops.iter()
        .map(|o| match o {
            Op::W(n) => format!("w{}", n),
            Op::WTrait(n) => format!("t{}", n),
            Op::WAllTrait(n) => format!("T{}", n),
            Op::Direct(n) => format!("d{}", n),
            Op::Digits(n) => format!("i{}", n),
            Op::Flush => "f".into(),
            Op::FlushTrait => "F".into(),
            Op::Check => "c".into(),
        })
        .collect::<Vec<_>>()
        .join(",")
}
fn parse_ops(s: &str) -> Vec<Op> {
    s.split(',')
        .filter(|x| !x.is_empty())
        .map(|x| {
            let n = || x[1..].parse::<usize>().unwrap();
            match &x[..1] {
                "w" => Op::W(n()),
                "t" => Op::WTrait(n()),
                "T" => Op::WAllTrait(n()),
                "d" => Op::Direct(n()),
                "i" => Op::Digits(n()),
                "f" => Op::Flush,
                "F" => Op::FlushTrait,
                _ => Op::Check,
            }
        })
        .collect()
}

pub fn run_seq(cfg: Cfg, ops: &[Op]) -> Option<(String, String)> {
    set_case_with(|s| {
        use std::fmt::Write;
        let _ = write!(s, "C11 the writer operation terminates\x1fwriter {:?} operations {}\x1f{}", cfg, op_str(ops), op_str(ops));
        for a in cfg_args(&cfg) {
            let _ = write!(s, "\x1e{}", a);
        }
    });
    let log = Rc::new(RefCell::new(SinkLog::default()));
    let sink = Sink { log: log.clone(), max: cfg.max, fail_at: cfg.fail_at, heal: cfg.heal, interrupt: cfg.interrupt, panic_at: cfg.panic_at };
    let mut written: Vec<u8> = vec![];
    let mut next = 0usize;
    let mut fresh = |n: usize, written: &mut Vec<u8>| -> Vec<u8> {
        let v: Vec<u8> = (0..n).map(|i| b'A' + ((next + i) % 23) as u8).collect();
        next += n;
        written.extend_from_slice(&v);
        v
    };
    macro_rules! bad {
        ($c:expr, $($a:tt)*) => { return Some(($c.to_string(), format!($($a)*))) };
    }
    let failing = cfg.fail_at.is_some();
    let r = catch_unwind(AssertUnwindSafe(|| -> Option<(String, String)> {
        // both constructors: the boxed one for the configurations whose sink is interrupted
        let mut w = if cfg.interrupt != 0 { DeferredWriter::from_boxed_dyn_write(Box::new(sink)) } else { DeferredWriter::from_write(sink) };
        if cfg.prefill > 0 {
            let v = fresh(cfg.prefill, &mut written);
            w.write_all_defer_err(&v);
        }
        for (i, &op) in ops.iter().enumerate() {
            let what = format!("op {} ({:?})", i, op);
            let pending0 = log.borrow().pending;
            match op {
                Op::W(n) => {
                    let v = fresh(n, &mut written);
                    w.write_all_defer_err(&v);
                }
                Op::WTrait(n) => {
                    let v = fresh(n, &mut written);
                    match w.write(&v) {
                        Ok(k) if k == n => {}
                        other => bad!("C11 write calls succeed", "{}: Write::write returned {:?}", what, other.map_err(|e| e.kind())),
                    }
                }
                Op::WAllTrait(n) => {
                    let v = fresh(n, &mut written);
                    if let Err(e) = w.write_all(&v) {
                        bad!("C11 write calls succeed", "{}: Write::write_all returned {:?}", what, e.kind());
                    }
                }
                Op::Direct(n) => {
                    let p = w.buf_write_ptr(n);
                    if !p.is_null() {
                        let v = fresh(n, &mut written);
                        unsafe {
                            std::ptr::copy_nonoverlapping(v.as_ptr(), p, n);
                            w.advance_unchecked(n);
                        }
                    }
                }
                Op::Digits(k) => {
                    let before = written.len();
                    let s = digits(&mut w, k % DIGITS);
                    written.extend_from_slice(s.as_bytes());
                    let _ = before;
                }
                Op::Flush => {
                    w.flush_defer_err();
                    if !failing && log.borrow().accepted != written {
                        bad!("C11 after a flush the sink has received exactly the written bytes", "{}: {} bytes written, {} received, first difference at {:?}", what, written.len(), log.borrow().accepted.len(), first_diff(&log.borrow().accepted, &written));
                    }
                }
                Op::FlushTrait | Op::Check => {
                    let r = if op == Op::Check { w.check_io_error() } else { w.flush() };
                    let pending = log.borrow().pending;
                    if r.is_err() != pending {
                        bad!("C11 a sink failure is reported exactly once, by the next flush or error check", "{}: returned {:?}, unreported sink failure: {}", what, r.map_err(|e| e.kind()), pending);
                    }
                    log.borrow_mut().pending = false;
                    if op == Op::FlushTrait && !failing && log.borrow().accepted != written {
                        bad!("C11 after a flush the sink has received exactly the written bytes", "{}: {} bytes written, {} received", what, written.len(), log.borrow().accepted.len());
                    }
                }
            }
            let l = log.borrow();
            if pending0 && !matches!(op, Op::FlushTrait | Op::Check) && l.calls_while_pending > 0 {
                bad!("C11 the sink is not called between a failure and its report", "{}: {} calls", what, l.calls_while_pending);
            }
            if l.calls_while_pending > 0 {
                bad!("C11 the sink is not called between a failure and its report", "{}: {} calls", what, l.calls_while_pending);
            }
            if !failing && (l.accepted.len() > written.len() || l.accepted[..] != written[..l.accepted.len()]) {
                bad!("C11 the sink receives the written bytes in order, once", "{}: received {} bytes, first difference from the written stream at {:?}", what, l.accepted.len(), first_diff(&l.accepted, &written));
            }
            if failing && !subsequence(&l.accepted, &written) {
                bad!("C11 with a failing sink the received bytes are an in-order, duplicate-free selection of the written stream", "{}: received {} bytes of {} written", what, l.accepted.len(), written.len());
            }
        }
        drop(w);
        let l = log.borrow();
        if l.calls_while_pending > 0 {
            bad!("C11 the sink is not called between a failure and its report", "dropping the writer with an unreported failure: {} calls of the sink", l.calls_while_pending);
        }
        if !failing && l.accepted != written {
            bad!("C11 after the writer is dropped the sink has received exactly the written bytes", "{} bytes written, {} received, first difference at {:?}", written.len(), l.accepted.len(), first_diff(&l.accepted, &written));
        }
        if failing && !subsequence(&l.accepted, &written) {
            bad!("C11 with a failing sink the received bytes are an in-order, duplicate-free selection of the written stream", "after drop: received {} bytes of {} written", l.accepted.len(), written.len());
        }
        None
    }));
    match r {
        Ok(x) => x,
        Err(p) => {
            let msg = panic_msg(p);
            if cfg.panic_at > 0 && msg.contains("injected sink panic") {
                // the sink panicked inside a call of the writer and the writer was dropped while unwinding: the sink must not be
                // called again (the buffered bytes were partly handed over already), and what it saw is still a selection of the stream
                let l = log.borrow();
                if l.calls != l.panicked_at {
                    return Some(("C11 a writer whose sink panicked does not flush again when it is dropped".to_string(), format!("{} further sink calls after the panic", l.calls - l.panicked_at)));
                }
                return None;
            }
            Some(("C11 write calls succeed".to_string(), format!("panic: {}", msg)))
        }
    }
}
fn first_diff(a: &[u8], b: &[u8]) -> Option<usize> {
    (0..a.len().max(b.len())).find(|&i| a.get(i) != b.get(i))
}
pub fn configs() -> Vec<Cfg> {
    let mut v = vec![];
    for &prefill in &[0usize, 16370, 16383] {
        for &max in &[usize::MAX, 4, 16384] {
            v.push(Cfg { max, fail_at: None, heal: 0, interrupt: 0, prefill, panic_at: 0 });
            v.push(Cfg { max, fail_at: None, heal: 0, interrupt: 2, prefill, panic_at: 0 });
            v.push(Cfg { max, fail_at: None, heal: 0, interrupt: 0, prefill, panic_at: 1 });
            v.push(Cfg { max, fail_at: None, heal: 0, interrupt: 0, prefill, panic_at: 2 });
            for &fail_at in &[0usize, 4, 16384, 16390] {
                v.push(Cfg { max, fail_at: Some(fail_at), heal: 1, interrupt: 0, prefill, panic_at: 0 });
                v.push(Cfg { max, fail_at: Some(fail_at), heal: usize::MAX, interrupt: 0, prefill, panic_at: 0 });
            }
        }
    }
    v
}
fn cfg_args(c: &Cfg) -> Vec<String> {
    vec![c.max.to_string(), c.fail_at.map(|x| x.to_string()).unwrap_or("-".into()), c.heal.to_string(), c.interrupt.to_string(), c.prefill.to_string(), c.panic_at.to_string()]
}
fn cfg_from(a: &[String]) -> Cfg {
    Cfg { max: a[0].parse().unwrap(), fail_at: a[1].parse().ok(), heal: a[2].parse().unwrap(), interrupt: a[3].parse().unwrap(), prefill: a[4].parse().unwrap(), panic_at: a.get(5).and_then(|x| x.parse().ok()).unwrap_or(0) }
}
pub fn suite(_prop: &str, tier: &str, seed: u64) -> Report {
    let mut rep = Report::new();
    let ops_all = all_ops();
    let n = if tier == "thorough" { 3 } else { 2 };
    let cfgs = configs();
    start_watchdog(30);
    for cfg in &cfgs {
        let mut idx: Vec<usize> = vec![];
        loop {
            let ops: Vec<Op> = idx.iter().map(|&i| ops_all[i]).collect();
            rep.runs += 1;
            if let Some((check, detail)) = run_seq(*cfg, &ops) {
                let mut a = vec![op_str(&ops)];
                a.extend(cfg_args(cfg));
                rep.fail(&check, format!("{:?}, operations {}", cfg, op_str(&ops)), a, detail);
            }
            let mut k = idx.len();
            loop {
                if k == 0 {
                    idx = vec![0; idx.len() + 1];
                    break;
                }
                k -= 1;
                if idx[k] + 1 < ops_all.len() {
                    idx[k] += 1;
                    for j in k + 1..idx.len() {
                        idx[j] = 0;
                    }
                    break;
                }
            }
            if idx.len() > n {
                break;
            }
        }
        let mut r = Rng::new(seed ^ cfg.prefill as u64);
        for _ in 0..(if tier == "thorough" { 400 } else { 60 }) {
            let len = 4 + r.below(12);
            let ops: Vec<Op> = (0..len).map(|_| ops_all[r.below(ops_all.len())]).collect();
            rep.runs += 1;
            if let Some((check, detail)) = run_seq(*cfg, &ops) {
                let mut a = vec![op_str(&ops)];
                a.extend(cfg_args(cfg));
                rep.fail(&check, format!("{:?}, operations {}", cfg, op_str(&ops)), a, detail);
            }
        }
    }
    // every integer value of the table at every fill level near the end of the buffer
    for prefill in 16384 - 45..=16384 {
        for k in 0..DIGITS {
            let cfg = Cfg { max: usize::MAX, fail_at: None, heal: 0, interrupt: 0, prefill, panic_at: 0 };
            let ops = [Op::Digits(k), Op::W(1), Op::Digits(k)];
            rep.runs += 1;
            if let Some((check, detail)) = run_seq(cfg, &ops) {
                let mut a = vec![op_str(&ops)];
                a.extend(cfg_args(&cfg));
                rep.fail(&check, format!("{:?}, operations {}", cfg, op_str(&ops)), a, detail);
            }
        }
    }
    rep.inputs = rep.runs;
    rep.nontrivial = rep.runs;
    rep.bound = format!(
        "writer: every sequence of up to {} operations out of {} (write_all_defer_err of 0/1/7/16383/16384/16385/40000 bytes, Write::write and Write::write_all, direct buffer writes of 3/16384 bytes, 6 integer extremes, flush_defer_err, Write::flush, check_io_error) under {} configurations (buffer empty / 14 / 1 bytes from full; sink accepting all / 4 / 16384 bytes per call, transient Interrupted, failing once or forever after 0/4/16384/16390 bytes), seeded longer sequences, and 26 integer values of all 12 types at the last 46 fill levels; built by from_write / from_boxed_dyn_write; the writer is dropped at the end of every sequence (a sink with an unreported failure must not be called by the drop either)",
        n,
        ops_all.len(),
        cfgs.len()
    );
    rep
}
pub fn replay(_prop: &str, args: &[String]) -> i32 {
    let ops = parse_ops(&args[0]);
    let cfg = cfg_from(&args[1..]);
    println!("configuration {:?}, operations {:?}", cfg, ops);
    match run_seq(cfg, &ops) {
        Some((c, d)) => {
            println!("FAILS {}: {}", c, d);
            1
        }
        None => 0,
    }
}
