//! Format suites: every parser of the workspace driven over a finite set of inputs under several read schedules,
//! checked against the runtime form of C01 C03 C04 C05 C08 C09 (C06 and C07 are in dimacs.rs / aiger.rs).
use std::panic::{catch_unwind, AssertUnwindSafe};

use flussab::text::LineReader;
use flussab::{DeferredReader, DeferredWriter};

use crate::common::*;

#[derive(Clone, PartialEq, Eq, Debug)]
pub enum End {
    Clean,
    Syntax { line: usize, column: usize, msg: String },
    Io,
    Panic(String),
}
#[derive(Clone, PartialEq, Eq, Debug)]
pub struct Outcome {
    pub items: Vec<String>,
    pub delivered_at_item: Vec<usize>,
    pub written: Vec<Vec<u8>>,
    pub end: End,
    pub calls_after_end: usize,
    pub peak: usize,
}
pub struct Sink<'a> {
    pub items: &'a mut Vec<String>,
    pub at: &'a mut Vec<usize>,
    pub written: &'a mut Vec<Vec<u8>>,
    pub meter: &'a Meter,
}
impl<'a> Sink<'a> {
    pub fn item(&mut self, s: String, w: Vec<u8>) {
        self.items.push(s);
        self.at.push(self.meter.delivered.get());
        self.written.push(w);
    }
}
pub fn to_bytes(f: impl FnOnce(&mut DeferredWriter)) -> Vec<u8> {
    let mut out = vec![];
    {
        let mut w = DeferredWriter::from_write(&mut out);
        f(&mut w);
        w.flush_defer_err();
    }
    out
}

pub struct Fmt {
    pub name: &'static str,
    /// drives the parser to its end; items go to the sink as they are handed out
    pub drive: fn(DeferredReader<'static>, &mut Sink) -> End,
    pub tokens: &'static [&'static [u8]],
    pub docs: &'static [&'static [u8]],
    /// separators put between tokens of generated sequences
    pub text: bool,
    /// items are handed out line by line (C09 applies)
    pub streaming: bool,
    /// parse(write(item)) is checked item by item instead of for the whole document
    pub item_roundtrip: bool,
    /// the format has a writer (C03 applies)
    pub has_writer: bool,
}

macro_rules! end_of {
    ($e:expr, $inner:path) => {{
        use $inner as IPE;
        match *$e {
            IPE::SyntaxError(s) => End::Syntax { line: s.location.line, column: s.location.column, msg: s.msg.clone() },
            IPE::IoError(_) => End::Io,
        }
    }};
}

fn drive_btor2(reader: DeferredReader<'static>, sink: &mut Sink) -> End {
    use flussab_btor2::{Config, Parser};
    let mut parser = match Parser::new(LineReader::new(reader), Config::default()) {
        Ok(p) => p,
        Err(e) => return end_of!(e, flussab_btor2::InnerParseError),
    };
    loop {
        match parser.next_line() {
            Ok(Some(line)) => {
                let w = to_bytes(|w| line.write_into(w));
                sink.item(format!("{:?}", line), w);
            }
            Ok(None) => return End::Clean,
            Err(e) => return end_of!(e, flussab_btor2::InnerParseError),
        }
        if sink.items.len() > 4096 {
            return End::Panic("more items than the input can hold".into());
        }
    }
}

macro_rules! drive_dimacs {
    ($name:ident, $m:ident, $lit:ty, $ignore:expr, $fmtclause:expr, $writeclause:expr) => {
        fn $name(reader: DeferredReader<'static>, sink: &mut Sink) -> End {
            use flussab_cnf::$m::{write_header, Config, Parser};
            let mut parser = match Parser::<$lit>::new(LineReader::new(reader), Config::default().ignore_header($ignore)) {
                Ok(p) => p,
                Err(e) => return end_of!(e, flussab_cnf::InnerParseError),
            };
            if let Some(h) = parser.header() {
                let w = to_bytes(|w| write_header(w, h));
                sink.item(format!("{:?}", h), w);
            }
            loop {
                match parser.next_clause() {
                    Ok(Some(c)) => {
                        let s = $fmtclause(&c);
                        let w = to_bytes(|w| $writeclause(w, &c));
                        sink.item(s, w);
                    }
                    Ok(None) => return End::Clean,
                    Err(e) => return end_of!(e, flussab_cnf::InnerParseError),
                }
                if sink.items.len() > 4096 {
                    return End::Panic("more items than the input can hold".into());
                }
            }
        }
    };
}
drive_dimacs!(drive_cnf, cnf, i32, false, |c: &&[i32]| format!("{:?}", c), |w: &mut DeferredWriter, c: &&[i32]| flussab_cnf::cnf::write_clause(w, c));
drive_dimacs!(drive_cnf_ign, cnf, i8, true, |c: &&[i8]| format!("{:?}", c), |w: &mut DeferredWriter, c: &&[i8]| flussab_cnf::cnf::write_clause(w, c));
drive_dimacs!(drive_cnf_ign32, cnf, i32, true, |c: &&[i32]| format!("{:?}", c), |w: &mut DeferredWriter, c: &&[i32]| flussab_cnf::cnf::write_clause(w, c));
drive_dimacs!(drive_wcnf_ign, wcnf, isize, true, |c: &(u64, &[isize])| format!("{:?}", c), |w: &mut DeferredWriter, c: &(u64, &[isize])| flussab_cnf::wcnf::write_clause(w, c.0, c.1));
drive_dimacs!(drive_gcnf_ign, gcnf, i16, true, |c: &(usize, &[i16])| format!("{:?}", c), |w: &mut DeferredWriter, c: &(usize, &[i16])| flussab_cnf::gcnf::write_clause(w, c.0, c.1));
drive_dimacs!(drive_wcnf, wcnf, isize, false, |c: &(u64, &[isize])| format!("{:?}", c), |w: &mut DeferredWriter, c: &(u64, &[isize])| flussab_cnf::wcnf::write_clause(w, c.0, c.1));
drive_dimacs!(drive_wcnf16, wcnf, i16, false, |c: &(u64, &[i16])| format!("{:?}", c), |w: &mut DeferredWriter, c: &(u64, &[i16])| flussab_cnf::wcnf::write_clause(w, c.0, c.1));
drive_dimacs!(drive_wcnf16_ign, wcnf, i16, true, |c: &(u64, &[i16])| format!("{:?}", c), |w: &mut DeferredWriter, c: &(u64, &[i16])| flussab_cnf::wcnf::write_clause(w, c.0, c.1));
drive_dimacs!(drive_gcnf, gcnf, i16, false, |c: &(usize, &[i16])| format!("{:?}", c), |w: &mut DeferredWriter, c: &(usize, &[i16])| flussab_cnf::gcnf::write_clause(w, c.0, c.1));

fn drive_satlog_with(reader: DeferredReader<'static>, sink: &mut Sink, ignore: bool) -> End {
    use flussab_cnf::sat_solver_log::{parse_log, Config};
    let mut lr = LineReader::new(reader);
    match parse_log::<i32>(&mut lr, Config::default().ignore_unknown_lines(ignore)) {
        Ok(log) => {
            // a log has no writer; its canonical text stands in for C03
            let mut w = vec![];
            match log.satisfiable {
                Some(true) => w.extend_from_slice(b"s SATISFIABLE\n"),
                Some(false) => w.extend_from_slice(b"s UNSATISFIABLE\n"),
                None => {}
            }
            if log.satisfiable == Some(true) {
                w.extend_from_slice(b"v");
                for l in &log.assignment {
                    w.extend_from_slice(format!(" {}", l).as_bytes());
                }
                w.extend_from_slice(b" 0\n");
            }
            sink.item(format!("{:?} {:?}", log.satisfiable, log.assignment), w);
            End::Clean
        }
        Err(e) => end_of!(e, flussab_cnf::InnerParseError),
    }
}
fn drive_satlog(reader: DeferredReader<'static>, sink: &mut Sink) -> End {
    drive_satlog_with(reader, sink, false)
}
fn drive_satlog_ign(reader: DeferredReader<'static>, sink: &mut Sink) -> End {
    drive_satlog_with(reader, sink, true)
}
fn drive_aag(reader: DeferredReader<'static>, sink: &mut Sink) -> End {
    use flussab_aiger::ascii::{Config, Parser, Writer};
    let parser = match Parser::<u32>::new(LineReader::new(reader), Config::default()) {
        Ok(p) => p,
        Err(e) => return end_of!(e, flussab_aiger::InnerParseError),
    };
    match parser.parse() {
        Ok(aig) => {
            let w = to_bytes(|w| Writer::<u32>::new(w).write_aig(&aig));
            sink.item(format!("{:?}", aig), w);
            End::Clean
        }
        Err(e) => end_of!(e, flussab_aiger::InnerParseError),
    }
}
fn drive_aig(reader: DeferredReader<'static>, sink: &mut Sink) -> End {
    use flussab_aiger::binary::{Config, Parser, Writer};
    let parser = match Parser::<u16>::new(LineReader::new(reader), Config::default()) {
        Ok(p) => p,
        Err(e) => return end_of!(e, flussab_aiger::InnerParseError),
    };
    match parser.parse() {
        Ok(aig) => {
            let mut out = vec![];
            {
                let mut w = Writer::<u16>::new(DeferredWriter::from_write(&mut out));
                w.write_ordered_aig(&aig);
                w.flush_defer_err();
            }
            sink.item(format!("{:?}", aig), out);
            End::Clean
        }
        Err(e) => end_of!(e, flussab_aiger::InnerParseError),
    }
}


macro_rules! drive_aiger_stream {
    ($name:ident, $m:ident, $lit:ty, $has_inputs:tt) => {
        fn $name(reader: DeferredReader<'static>, sink: &mut Sink) -> End {
            use flussab_aiger::$m::{Config, Parser};
            macro_rules! t {
                ($e:expr) => {
                    match $e {
                        Ok(x) => x,
                        Err(e) => return end_of!(e, flussab_aiger::InnerParseError),
                    }
                };
            }
            let p = t!(Parser::<$lit>::new(LineReader::new(reader), Config::default()));
            sink.item(format!("{:?}", p.header()), vec![]);
            drive_aiger_stream!(@sections $has_inputs, p, sink, t)
        }
    };
    (@sections true, $p:ident, $sink:ident, $t:ident) => {{
        let mut s = $t!($p.inputs());
        while let Some(x) = $t!(s.next_input()) {
            $sink.item(format!("input {:?}", x), vec![]);
        }
        let s = $t!(s.latches());
        drive_aiger_stream!(@rest s, $sink, $t)
    }};
    (@sections false, $p:ident, $sink:ident, $t:ident) => {{
        let s = $t!($p.latches());
        drive_aiger_stream!(@rest s, $sink, $t)
    }};
    (@rest $s:ident, $sink:ident, $t:ident) => {{
        let mut s = $s;
        while let Some(x) = $t!(s.next_latch()) {
            $sink.item(format!("latch {:?}", x), vec![]);
        }
        let mut s = $t!(s.outputs());
        while let Some(x) = $t!(s.next_output()) {
            $sink.item(format!("output {:?}", x), vec![]);
        }
        let mut s = $t!(s.bad_state_properties());
        while let Some(x) = $t!(s.next_bad_state_property()) {
            $sink.item(format!("bad {:?}", x), vec![]);
        }
        let mut s = $t!(s.invariant_constraints());
        while let Some(x) = $t!(s.next_invariant_constraint()) {
            $sink.item(format!("constraint {:?}", x), vec![]);
        }
        let mut s = $t!(s.justice_properties());
        while let Some(x) = $t!(s.next_justice_property_size()) {
            $sink.item(format!("justice size {:?}", x), vec![]);
        }
        let mut s = $t!(s.justice_property_local_fairness_constraints());
        while let Some(x) = $t!(s.next_justice_property_local_fairness_constraint()) {
            $sink.item(format!("justice lit {:?}", x), vec![]);
        }
        let mut s = $t!(s.fairness_constraints());
        while let Some(x) = $t!(s.next_fairness_constraint()) {
            $sink.item(format!("fairness {:?}", x), vec![]);
        }
        let mut s = $t!(s.and_gates());
        while let Some(x) = $t!(s.next_and_gate()) {
            $sink.item(format!("gate {:?}", x), vec![]);
        }
        let mut s = $t!(s.symbols());
        loop {
            let sym = match $t!(s.next_symbol()) {
                Some(x) => format!("symbol {:?}", x),
                None => break,
            };
            $sink.item(sym, vec![]);
            if $sink.items.len() > 4096 {
                return End::Panic("more items than the input can hold".into());
            }
        }
        let c = $t!(s.comment()).map(|c| c.to_string());
        if let Some(c) = c {
            $sink.item(format!("comment {:?}", c), vec![]);
        }
        End::Clean
    }};
}
drive_aiger_stream!(drive_aag_stream, ascii, u8, true);
drive_aiger_stream!(drive_aig_stream, binary, u32, false);

pub fn run(f: &Fmt, input: &[u8], sched: Sched) -> Outcome {
    set_case_bytes("C05 the parser terminates with bounded resources", f.name, input, sched);
    let (src, meter) = Src::new(input, sched);
    let mark = mem_mark();
    let mut items = vec![];
    let mut at = vec![];
    let mut written = vec![];
    let r = catch_unwind(AssertUnwindSafe(|| {
        let mut reader = DeferredReader::from_read(src);
        reader.set_chunk_size(sched.chunk);
        let mut sink = Sink { items: &mut items, at: &mut at, written: &mut written, meter: &meter };
        (f.drive)(reader, &mut sink)
    }));
    let peak = mem_peak_since(mark);
    let end = match r {
        Ok(e) => e,
        Err(p) => End::Panic(panic_msg(p)),
    };
    Outcome { items, delivered_at_item: at, written, end, calls_after_end: meter.calls_after_end.get(), peak }
}

fn line_lengths(input: &[u8]) -> Vec<usize> {
    input.split(|&b| b == b'\n').map(|l| l.len()).collect()
}
fn same_result(a: &Outcome, b: &Outcome) -> bool {
    a.items == b.items && a.end == b.end
}

pub fn check_input(f: &Fmt, input: &[u8], prop: &str, rep: &mut Report) {
    let all = prop == "all";
    let base = run(f, input, ONE_SHOT);
    rep.runs += 1;
    let rargs = |s: Sched| {
        let mut v = vec![hex(input)];
        v.extend(s.args());
        v
    };
    macro_rules! fail {
        ($check:expr, $s:expr, $detail:expr) => {
            rep.fail($check, show(input), rargs($s), $detail)
        };
    }
    let schedules = [
        Sched { chunk: 1, mode: Mode::Step(1), fail_at: None, interrupt: 0 },
        Sched { chunk: 2, mode: Mode::Step(3), fail_at: None, interrupt: 0 },
        Sched { chunk: 3, mode: Mode::Step(2), fail_at: None, interrupt: 0 },
        Sched { chunk: 7, mode: Mode::Step(1 << 20), fail_at: None, interrupt: 0 },
        Sched { chunk: 16384, mode: Mode::Lines, fail_at: None, interrupt: 0 },
        Sched { chunk: 16384, mode: Mode::Step(5), fail_at: None, interrupt: 2 },
        Sched { chunk: 4, mode: Mode::Step(1), fail_at: None, interrupt: 3 },
    ];
    if all || prop == "C05" {
        if let End::Panic(m) = &base.end {
            fail!("C05 no panic", ONE_SHOT, m.clone());
        }
        // memory: a constant multiple of the input length plus the pre-allocation cap of the parsers, whatever counts the input declares
        let bound = 64 * input.len() + (48 << 20);
        if base.peak > bound {
            fail!("C05 memory bounded by the input length", ONE_SHOT, format!("peak heap {} bytes for {} input bytes (bound {})", base.peak, input.len(), bound));
        }
    }
    if all || prop == "C01" || prop == "C05" || prop == "C09" {
        for &s in schedules.iter() {
            let o = run(f, input, s);
            rep.runs += 1;
            if all || prop == "C05" {
                if let End::Panic(m) = &o.end {
                    fail!("C05 no panic", s, m.clone());
                }
            }
            if (all || prop == "C01") && !same_result(&o, &base) {
                fail!("C01 same result for every read schedule", s, format!("one-shot: {:?} {:?}; this schedule: {:?} {:?}", base.items, base.end, o.items, o.end));
            }
            if (all || prop == "C09") && o.calls_after_end > 0 {
                fail!("C09 the source is not called again after it reported the end", s, format!("{} further calls", o.calls_after_end));
            }
        }
    }
    let is_doc = f.docs.iter().any(|d| *d == input);
    if (all || prop == "C01" || prop == "C14") && (is_doc || (!input.is_empty() && f.docs.iter().any(|d| d.starts_with(input)))) {
        // curated documents: every combination of chunk size and read size up to 9 (buffer realignments leave stale bytes behind the
        // valid data; a scanner that looks one byte too far reads them)
        // truncated curated documents (the tail of the input is where fast paths hand over to bytewise code): 5 of the 9 read sizes
        for chunk in 1..=9usize {
            for step in 1..=9usize {
                if !is_doc && !matches!(step, 1 | 2 | 3 | 5 | 8) {
                    continue;
                }
                let s = Sched { chunk, mode: Mode::Step(step), fail_at: None, interrupt: 0 };
                let o = run(f, input, s);
                rep.runs += 1;
                if !same_result(&o, &base) {
                    fail!(if prop == "C14" { "C14 the result depends only on bytes read from the source" } else { "C01 same result for every read schedule" }, s, format!("one-shot: {:?} {:?}; this schedule: {:?} {:?}", base.items, base.end, o.items, o.end));
                }
            }
        }
    }
    if all || prop == "C08" {
        if let End::Syntax { line, column, .. } = &base.end {
            // lines: terminated ones plus an unterminated last one; one line more (of length 0) is allowed
            let mut ll = line_lengths(input);
            if ll.last() == Some(&0) {
                ll.pop();
            }
            ll.push(0);
            let ok = *line >= 1 && *line <= ll.len() && *column >= 1 && *column <= ll[*line - 1] + 1;
            if !ok && f.text {
                fail!("C08 error location inside the input", ONE_SHOT, format!("reported {}:{}, line lengths {:?}", line, column, ll));
            }
        }
    }
    if (all || prop == "C03") && f.has_writer && !base.items.is_empty() {
        if f.item_roundtrip {
            for (k, w) in base.written.iter().enumerate() {
                let again = run(f, w, ONE_SHOT);
                rep.runs += 1;
                if again.items.len() != 1 || again.items[0] != base.items[k] || again.end != End::Clean {
                    rep.fail("C03 parse(write(parse(t))) == parse(t)", show(input), rargs(ONE_SHOT), format!("item {:?} written as {:?} parses as {:?} {:?}", base.items[k], show(w), again.items, again.end));
                }
            }
        }
        if base.end == End::Clean && !(f.item_roundtrip && base.items.len() < 2) {
            let doc: Vec<u8> = base.written.concat();
            let again = run(f, &doc, ONE_SHOT);
            rep.runs += 1;
            if again.items != base.items || again.end != End::Clean {
                rep.fail("C03 parse(write(parse(t))) == parse(t)", show(input), rargs(ONE_SHOT), format!("parsed {:?}, written as {:?}, parsed again as {:?} {:?}", base.items, show(&doc), again.items, again.end));
            }
        }
    }
    if (all || prop == "C09") && f.streaming {
        // line by line: item k is handed out before anything beyond the line that completes it was delivered; that line is the first
        // one after which the one-shot parse of the lines so far already contains item k
        let s = Sched { chunk: 16384, mode: Mode::Lines, fail_at: None, interrupt: 0 };
        let o = run(f, input, s);
        rep.runs += 1;
        let mut line_ends = vec![];
        for (i, &b) in input.iter().enumerate() {
            if b == b'\n' {
                line_ends.push(i + 1);
            }
        }
        if input.last().map(|&b| b != b'\n').unwrap_or(false) {
            line_ends.push(input.len());
        }
        let mut k = 0;
        for &e in &line_ends {
            if k >= o.items.len() {
                break;
            }
            let p = run(f, &input[..e], ONE_SHOT);
            rep.runs += 1;
            while k < o.items.len() && p.items.len() > k && p.items[k] == o.items[k] {
                if o.delivered_at_item[k] > e {
                    fail!("C09 no read past the line that completes the item", s, format!("item {} ({}) was handed out after {} bytes had been delivered; the line completing it ends at offset {}", k, o.items[k], o.delivered_at_item[k], e));
                }
                k += 1;
            }
        }
    }
    if all || prop == "C04" || prop == "C05" {
        let mut ks: Vec<usize> = (0..=input.len()).collect();
        if input.len() > 48 {
            // long documents: every offset near the start and the end, every third one in between
            ks = (0..=input.len()).filter(|&k| k < 16 || k + 16 > input.len() || k % 3 == 0).collect();
        }
        for k in ks {
            for (n, &(chunk, mode)) in [(16384usize, Mode::Step(1 << 20)), (1, Mode::Step(1)), (16384, Mode::Lines)].iter().enumerate() {
                let s = Sched { chunk, mode, fail_at: Some((k, (k + n) % KINDS.len())), interrupt: 0 };
                let o = run(f, input, s);
                rep.runs += 1;
                if prop == "C05" {
                    if let End::Panic(m) = &o.end {
                        fail!("C05 no panic", s, m.clone());
                    }
                    continue;
                }
                match &o.end {
                    End::Io => {}
                    End::Clean => fail!("C04 a failing source never gives a clean end", s, format!("items {:?}", o.items)),
                    End::Syntax { .. } => {
                        // legitimate only if the error lies in the delivered prefix: the fault-free run reports the same error after the same items
                        let p = run(f, &input[..k], Sched { fail_at: None, ..s });
                        rep.runs += 1;
                        let same_full = base.end == o.end && base.items.len() >= o.items.len() && base.items[..o.items.len()] == o.items[..];
                        // the same error may also be decidable from the first k bytes alone, but then it must not be about the end of the data
                        let mentions_end = matches!(&o.end, End::Syntax { msg, .. } if msg.contains("end of file"));
                        if !(same_full || (p.end == o.end && !mentions_end)) {
                            fail!("C04 no syntax error caused by the failure", s, format!("with fault: {:?} {:?}; fault-free: {:?} {:?}", o.items, o.end, base.items, base.end));
                        }
                    }
                    End::Panic(m) => fail!("C05 no panic", s, m.clone()),
                }
                if o.items.len() > base.items.len() || o.items[..] != base.items[..o.items.len()] {
                    fail!("C04 items before the failure are the fault-free items", s, format!("with fault: {:?}; fault-free: {:?}", o.items, base.items));
                }
                if o.calls_after_end > 0 && (all || prop == "C09") {
                    fail!("C09 the source is not called again after it reported an error", s, format!("{} further calls", o.calls_after_end));
                }
            }
        }
    }
}

// ---------------------------------------------------------------- the input sets
const BTOR2_TOKENS: &[&[u8]] = &[
    b"1", b"2", b"3", b"10", b"0", b"-1", b" ", b"\n", b"sort", b"bitvec", b"array", b"input", b"state", b"init", b"next", b"bad", b"constraint", b"output", b"fair", b"justice", b"add", b"not", b"ite",
    b"slice", b"uext", b"const", b"constd", b"consth", b"one", b"ones", b"zero", b"101", b"ff", b"name", b";", b"; c", b"x", b"eq", b"concat",
    // lane boundaries of the 8-byte lowercase kernel: bytes next to `a`..`z`, upper case, runs of 7, 8 and 9 letters
    b"az", b"a`", b"z{", b"aZ", b"abcdefg", b"abcdefgh", b"abcdefghi", b"sort{", b"inpuT",
    b"input\xe2\x80\x83", b"not\xe9", b"sort\xe1", b"constraint\xf0\x9f\x98\x80", b"ab\xfa", b"ab\xfb",
];
const BTOR2_DOCS: &[&[u8]] = &[
    b"1 sort bitvec 1\n2 input 1 a ; comment\n3 state 1\n4 init 1 3 2\n5 next 1 3 2\n6 bad 2\n7 constraint 2\n",
    b"1 sort bitvec 8\n2 sort array 1 1\n3 const 1 101\n4 constd 1 10\n5 consth 1 ff\n6 one 1\n7 ones 1\n8 zero 1\n",
    b"1 sort bitvec 4\n2 input 1\n3 not 1 2\n4 add 1 2 3\n5 ite 1 2 3 4\n6 slice 1 2 3 0\n7 uext 1 2 4 sym\n8 justice 2 2 3\n9 fair 2\n10 output 2\n",
    // per-line state must not leak into the next line: repeated multi-operand lines, comments and symbols
    b"1 sort bitvec 1\n2 input 1\n3 input 1\n4 input 1\n5 justice 2 2 3\n6 justice 1 4\n7 justice 3 4 3 2\n8 ite 1 2 3 4 s ; c1\n9 ite 1 4 3 2\n10 input 1 ; c2\n11 input 1\n",
    // constants of every base after one another, in every order: the constant buffer must not carry over
    b"1 sort bitvec 8\n2 consth 1 ff\n3 const 1 101\n4 constd 1 12\n5 const 1 1\n6 consth 1 a\n7 constd 1 -3\n8 constd 1 5\n9 consth 1 0\n10 const 1 0\n",
    // every constant keyword in the middle of a document (written alone, such a line is the last of its input)
    b"1 sort bitvec 8\n2 zero 1\n3 one 1\n4 ones 1\n5 input 1 z\n6 state 1\n7 not 1 2\n",
    b"; only a comment\n\n  \n1 sort bitvec 1\n",
    b"1 sort bitvec 1",
    b"1 sort bitvec 1 ; no newline",
    b"99999999999999999999999 sort bitvec 1\n",
    b"1 sort bitvec 99999999999999999999999\n",
    b"1 eq 1 2 3\n2 concat 1 2 3 name\n",
    b"1 sort bitvec 1\n; comment\n\n\n\n3 bogus 1 2\n",
    // declared counts far beyond what the line holds (C05: a declared count must not size anything)
    b"1 sort bitvec 1\n2 input 1\n3 justice 40000000 2\n",
    b"1 sort bitvec 1\n2 input 1\n3 justice 18446744073709551615 2 2\n",
    // a long token mixing ASCII and multi-byte / invalid UTF-8 (error messages quote and shorten the offending token)
    b"x\xc3\xa9\xc3\xa9\xc3\xa9\xc3\xa9\xc3\xa9\xc3\xa9\xc3\xa9\xc3\xa9\xc3\xa9\xc3\xa9\xc3\xa9\xc3\xa9\xc3\xa9\xc3\xa9\xc3\xa9\xc3\xa9\xc3\xa9\xc3\xa9\xc3\xa9\xc3\xa9\xc3\xa9\xc3\xa9\xc3\xa9\xc3\xa9\xc3\xa9\xc3\xa9\xc3\xa9\xc3\xa9\xc3\xa9\xc3\xa9\xc3\xa9\xc3\xa9\xc3\xa9\xc3\xa9\xc3\xa9\xc3\xa9\xc3\xa9\xc3\xa9\xc3\xa9\xc3\xa9",
    b"x\xff\xff\xff\xff\xff\xff\xff\xff\xff\xff\xff\xff\xff\xff\xff\xff\xff\xff\xff\xff\xff\xff\xff\xff\xff\xff\xff\xff\xff\xff",
];
const CNF_TOKENS: &[&[u8]] = &[
    b"1", b"-1", b"2", b"-2", b"3", b"0", b"-0", b"00", b"007", b"-", b"p", b"cnf", b"c", b"c x", b"\n", b"\n", b"\r\n", b" ", b"\t", b"x", b"2147483647", b"2147483648", b"-2147483648", b"-2147483649",
    b"99999999999999999999", b"-99999999999999999999", b"p cnf 3 2\n", b"p cnf 0 0\n", b"p cnf 2 1\n",
];
const CNF_DOCS: &[&[u8]] = &[
    b"p cnf 3 2\n1 -2 0\n3 0\n",
    b"c comment\np cnf 3 2\nc more\n1 -2\n 3 0\n\n-1 0\nc end\n",
    b"1 2 0\n-1 2 0\n",
    b"1 2 0\n-1 2",
    b"p cnf 2147483647 1\n2147483647 -2147483647 0\n",
    b"p cnf 3 2\r\n1 -2 0\r\n3 0\r\n",
    b"p cnf 3 1\n1 2\n\t\t-3 7 0\n",
    b"p cnf 3 2\n1 2 0\n\n  -3 x 0\n",
    b"p cnf 3 2\n1 -2 0\n3 0\n  \nc trailing\n",
    b"p cnf 18446744073709551616 1\n1 0\n",
    b"p  cnf  3   2 \n 1  -2   0 \n3 0",
    // a long token mixing ASCII and multi-byte / invalid UTF-8 (error messages quote and shorten the offending token)
    b"x\xc3\xa9\xc3\xa9\xc3\xa9\xc3\xa9\xc3\xa9\xc3\xa9\xc3\xa9\xc3\xa9\xc3\xa9\xc3\xa9\xc3\xa9\xc3\xa9\xc3\xa9\xc3\xa9\xc3\xa9\xc3\xa9\xc3\xa9\xc3\xa9\xc3\xa9\xc3\xa9\xc3\xa9\xc3\xa9\xc3\xa9\xc3\xa9\xc3\xa9\xc3\xa9\xc3\xa9\xc3\xa9\xc3\xa9\xc3\xa9\xc3\xa9\xc3\xa9\xc3\xa9\xc3\xa9\xc3\xa9\xc3\xa9\xc3\xa9\xc3\xa9\xc3\xa9\xc3\xa9",
    b"x\xff\xff\xff\xff\xff\xff\xff\xff\xff\xff\xff\xff\xff\xff\xff\xff\xff\xff\xff\xff\xff\xff\xff\xff\xff\xff\xff\xff\xff\xff",
];
const CNF8_TOKENS: &[&[u8]] = &[b"1", b"-1", b"127", b"128", b"-127", b"-128", b"-129", b"255", b"256", b"0", b"-0", b"\n", b" ", b"p cnf 1 1\n", b"c\n", b"99999999999999999999", b"9223372036854775807", b"9223372036854775808"];
const CNF8_DOCS: &[&[u8]] = &[b"p cnf 1 1\n5 -127 0\n3 0\n-7 0\n", b"127 -127 0\n", b"p cnf 300 300\n1 0\n"];
const WCNF_TOKENS: &[&[u8]] = &[
    b"1", b"-1", b"2", b"0", b"5", b"p", b"wcnf", b"c x", b"\n", b"\n", b" ", b"x", b"18446744073709551615", b"18446744073709551616", b"9223372036854775807", b"9223372036854775808", b"-9223372036854775808",
    b"p wcnf 3 2 10\n", b"p wcnf 0 0 0\n",
];
const WCNF_DOCS: &[&[u8]] = &[
    b"p wcnf 3 2 10\n10 1 -2 0\n3 3 0\n",
    b"c comment\np wcnf 3 2 10\n10 1\n -2 0\n\n3\n3 0\n",
    b"5 1 2 0\n7 -1 2 0\n",
    b"p wcnf 3 1 18446744073709551615\n18446744073709551615 1 -3 0\n",
    b"p wcnf 3 2 10\r\n10 1 -2 0\r\n3 3 0\r\n",
    // a long token mixing ASCII and multi-byte / invalid UTF-8 (error messages quote and shorten the offending token)
    b"x\xc3\xa9\xc3\xa9\xc3\xa9\xc3\xa9\xc3\xa9\xc3\xa9\xc3\xa9\xc3\xa9\xc3\xa9\xc3\xa9\xc3\xa9\xc3\xa9\xc3\xa9\xc3\xa9\xc3\xa9\xc3\xa9\xc3\xa9\xc3\xa9\xc3\xa9\xc3\xa9\xc3\xa9\xc3\xa9\xc3\xa9\xc3\xa9\xc3\xa9\xc3\xa9\xc3\xa9\xc3\xa9\xc3\xa9\xc3\xa9\xc3\xa9\xc3\xa9\xc3\xa9\xc3\xa9\xc3\xa9\xc3\xa9\xc3\xa9\xc3\xa9\xc3\xa9\xc3\xa9",
    b"x\xff\xff\xff\xff\xff\xff\xff\xff\xff\xff\xff\xff\xff\xff\xff\xff\xff\xff\xff\xff\xff\xff\xff\xff\xff\xff\xff\xff\xff\xff",
];
const GCNF_TOKENS: &[&[u8]] = &[
    b"1", b"-1", b"2", b"0", b"{0}", b"{1}", b"{2}", b"{3}", b"{", b"}", b"{1", b"p", b"gcnf", b"c x", b"\n", b"\n", b" ", b"x", b"32767", b"32768", b"-32768", b"{18446744073709551615}", b"{18446744073709551616}",
    b"{00000001}", b"{12345678}", b"{123456789}", b"p gcnf 3 2 2\n", b"p gcnf 0 0 0\n",
];
const GCNF_DOCS: &[&[u8]] = &[
    b"p gcnf 3 2 2\n{1} 1 -2 0\n{2} 3 0\n",
    b"c comment\np gcnf 3 3 2\n{0} 1\n -2 0\n\n{2}\n3 0\n{1} -1 0\n",
    b"{1} 1 2 0\n{5} -1 2 0\n",
    b"p gcnf 32767 1 1\n{1} 32767 -32767 0\n",
    b"{123456789} 1 0\n{1234567} 2 0\n{12345678} 3 0\n",
    // a long token mixing ASCII and multi-byte / invalid UTF-8 (error messages quote and shorten the offending token)
    b"x\xc3\xa9\xc3\xa9\xc3\xa9\xc3\xa9\xc3\xa9\xc3\xa9\xc3\xa9\xc3\xa9\xc3\xa9\xc3\xa9\xc3\xa9\xc3\xa9\xc3\xa9\xc3\xa9\xc3\xa9\xc3\xa9\xc3\xa9\xc3\xa9\xc3\xa9\xc3\xa9\xc3\xa9\xc3\xa9\xc3\xa9\xc3\xa9\xc3\xa9\xc3\xa9\xc3\xa9\xc3\xa9\xc3\xa9\xc3\xa9\xc3\xa9\xc3\xa9\xc3\xa9\xc3\xa9\xc3\xa9\xc3\xa9\xc3\xa9\xc3\xa9\xc3\xa9\xc3\xa9",
    b"x\xff\xff\xff\xff\xff\xff\xff\xff\xff\xff\xff\xff\xff\xff\xff\xff\xff\xff\xff\xff\xff\xff\xff\xff\xff\xff\xff\xff\xff\xff",
];
const SATLOG_TOKENS: &[&[u8]] = &[b"-9223372036854775808", b"9223372036854775807", b"-9223372036854775809", b"9223372036854775808", b"-2147483648", b"-2147483647", b"2147483647", b"v -9223372036854775808 0\n", b"s", b"SATISFIABLE", b"UNSATISFIABLE", b"UNKNOWN", b"v", b"1", b"-2", b"3", b"0", b"c", b"c x", b"o 5", b"\n", b"\n", b" ", b"x", b"2147483648", b"s SATISFIABLE\n", b"v 1 -2 0\n"];
const SATLOG_DOCS: &[&[u8]] = &[
    b"s SATISFIABLE\nv 1 -9223372036854775808 0\n",
    b"s SATISFIABLE\nv 2147483647 -2147483647 0\n",
    b"s SATISFIABLE\nv 2147483648 0\n",
    b"c solver\ns SATISFIABLE\nv 1 -2\nv 3 0\n",
    b"s UNSATISFIABLE\n",
    b"s UNKNOWN\n",
    b"c foo\n\ns SATISFIABLE\nv 1 -2\n\nv 3 0\n",
    b"o 7\ns SATISFIABLE\no 5\nv 1 -2 3 0\n",
    b"s SATISFIABLE\nv 1 -2 3 0",
    b"c only comments\n",
    // a long token mixing ASCII and multi-byte / invalid UTF-8 (error messages quote and shorten the offending token)
    b"x\xc3\xa9\xc3\xa9\xc3\xa9\xc3\xa9\xc3\xa9\xc3\xa9\xc3\xa9\xc3\xa9\xc3\xa9\xc3\xa9\xc3\xa9\xc3\xa9\xc3\xa9\xc3\xa9\xc3\xa9\xc3\xa9\xc3\xa9\xc3\xa9\xc3\xa9\xc3\xa9\xc3\xa9\xc3\xa9\xc3\xa9\xc3\xa9\xc3\xa9\xc3\xa9\xc3\xa9\xc3\xa9\xc3\xa9\xc3\xa9\xc3\xa9\xc3\xa9\xc3\xa9\xc3\xa9\xc3\xa9\xc3\xa9\xc3\xa9\xc3\xa9\xc3\xa9\xc3\xa9",
    b"x\xff\xff\xff\xff\xff\xff\xff\xff\xff\xff\xff\xff\xff\xff\xff\xff\xff\xff\xff\xff\xff\xff\xff\xff\xff\xff\xff\xff\xff\xff",
];
const AAG_TOKENS: &[&[u8]] = &[b"aag", b"0", b"1", b"2", b"3", b"4", b"5", b"6", b"7", b"\n", b"\n", b" ", b"i0 x", b"l0 s", b"o0 out", b"b0 ", b"c", b"c\n", b"text", b"aag 1 1 0 1 0\n", b"aag 3 1 1 1 1\n", b"4294967295", b"4294967296"];
const AAG_DOCS: &[&[u8]] = &[
    b"aag 3 1 1 1 1\n2\n4 6 1\n6\n6 2 4\ni0 in\nl0 st\no0 out\nc\nhello\nworld\n",
    b"aag 5 2 1 1 2 1 1 1 1\n2\n4\n6 8 0\n10\n3\n5\n2\n8\n9\n7\n8 2 4\n10 9 6\ni0 a\ni1 b\nb0 bad\nc0 con\nj0 jus\nf0 fair\nc\ncomment\n",
    b"aag 0 0 0 0 0\n",
    b"aag 0 0 0 1 0\n1\n",
    b"aag 1 1 0 1 0\n2\n3\n",
    b"aag 2 1 1 0 0\n2\n4 5\n",
    b"aag 2 1 1 0 0\n2\n4 5 4\n",
    b"aag 1 1 0 0 0 0 0 0 0\n2\n",
    b"aag 0 0 0 0 0 0 0 1\n67108864\n",
    b"aag 0 0 0 0 0 0 0 2\n1\n18446744073709551615\n",
    b"aag 2147483647 2147483647 0 0 0\n",
    b"aag 100000 0 100000 0 0\n",
    b"aag 70000 0 0 70000 0 70000 70000 70000 70000\n",
    b"aag 3 1 1 1 1\n2\n4 6 1\n6\n6 2 4\nc\n",
    b"aag 3 1 1 1 1\n2\n4 6 1\n6\n6 2 4\nc",
    b"aag 1 1 0 0 0\n2\ni0 first\ni0 again\n",
    // a long token mixing ASCII and multi-byte / invalid UTF-8 (error messages quote and shorten the offending token)
    b"x\xc3\xa9\xc3\xa9\xc3\xa9\xc3\xa9\xc3\xa9\xc3\xa9\xc3\xa9\xc3\xa9\xc3\xa9\xc3\xa9\xc3\xa9\xc3\xa9\xc3\xa9\xc3\xa9\xc3\xa9\xc3\xa9\xc3\xa9\xc3\xa9\xc3\xa9\xc3\xa9\xc3\xa9\xc3\xa9\xc3\xa9\xc3\xa9\xc3\xa9\xc3\xa9\xc3\xa9\xc3\xa9\xc3\xa9\xc3\xa9\xc3\xa9\xc3\xa9\xc3\xa9\xc3\xa9\xc3\xa9\xc3\xa9\xc3\xa9\xc3\xa9\xc3\xa9\xc3\xa9",
    b"x\xff\xff\xff\xff\xff\xff\xff\xff\xff\xff\xff\xff\xff\xff\xff\xff\xff\xff\xff\xff\xff\xff\xff\xff\xff\xff\xff\xff\xff\xff",
];
const AIG_TOKENS: &[&[u8]] = &[b"aig", b"0", b"1", b"2", b"3", b"4", b"6", b"\n", b"\n", b" ", b"\x01", b"\x02", b"\x80", b"\x81\x01", b"\x7f", b"\xff", b"i0 x", b"c\n", b"aig 1 1 0 1 0\n", b"aig 3 1 1 1 1\n", b"65535", b"65536"];
const AIG_DOCS: &[&[u8]] = &[
    b"aig 3 1 1 1 1\n6 1\n6\n\x02\x02i0 in\nl0 st\no0 out\nc\nhello\n",
    b"aig 5 2 1 1 2 1 1 1 1\n8 0\n10\n3\n5\n2\n8\n9\n7\n\x04\x02\x01\x03i0 a\nb0 bad\nc\ncomment\n",
    b"aig 0 0 0 0 0\n",
    b"aig 2 1 1 0 1\n2\n\x02\x02",
    b"aig 200 100 0 1 100\n400\n",
    b"aig 70 70 0 0 0\n",
    b"aig 71 70 0 1 1\n142\n\x80\x01\x0c",
    b"aig 32767 32767 0 0 0\n",
    b"aig 32767 0 32767 0 0\n",
    b"aig 0 0 0 0 0 0 0 1\n67108864\n",
    b"aig 3 1 1 1 1\n6 1\n6\n\x02\x02c",
    b"aig 3 1 1 1 1\n6 1\n6\n\x02\xff\xff\xff\xff\xff\xff\xff\xff\xff\xff\xff\x02",
    // one and-gate whose second delta has two bytes (0x80 0x0a) and whose bytes contain line feeds: delivered "line by line" the gate is
    // complete at the end of the second piece, a decoder that prefetches the longest encoding pulls the symbol table first (C09)
    b"aig 1300 1299 0 0 1\n\x0a\x80\x0ai0 x\nc\nhi\n",
];

pub const FORMATS: &[Fmt] = &[
    Fmt { name: "btor2", drive: drive_btor2, tokens: BTOR2_TOKENS, docs: BTOR2_DOCS, text: true, streaming: true, item_roundtrip: true, has_writer: true },
    Fmt { name: "cnf", drive: drive_cnf, tokens: CNF_TOKENS, docs: CNF_DOCS, text: true, streaming: true, item_roundtrip: false, has_writer: true },
    Fmt { name: "cnf8", drive: drive_cnf_ign, tokens: CNF8_TOKENS, docs: CNF8_DOCS, text: true, streaming: true, item_roundtrip: false, has_writer: true },
    Fmt { name: "wcnf16", drive: drive_wcnf16, tokens: WCNF_TOKENS, docs: WCNF_DOCS, text: true, streaming: true, item_roundtrip: false, has_writer: true },
    Fmt { name: "wcnf16_ign", drive: drive_wcnf16_ign, tokens: WCNF_TOKENS, docs: WCNF_DOCS, text: true, streaming: true, item_roundtrip: false, has_writer: true },
    Fmt { name: "wcnf", drive: drive_wcnf, tokens: WCNF_TOKENS, docs: WCNF_DOCS, text: true, streaming: true, item_roundtrip: false, has_writer: true },
    Fmt { name: "gcnf", drive: drive_gcnf, tokens: GCNF_TOKENS, docs: GCNF_DOCS, text: true, streaming: true, item_roundtrip: false, has_writer: true },
    Fmt { name: "cnf_ign", drive: drive_cnf_ign32, tokens: CNF_TOKENS, docs: CNF_DOCS, text: true, streaming: true, item_roundtrip: false, has_writer: true },
    Fmt { name: "wcnf_ign", drive: drive_wcnf_ign, tokens: WCNF_TOKENS, docs: WCNF_DOCS, text: true, streaming: true, item_roundtrip: false, has_writer: true },
    Fmt { name: "gcnf_ign", drive: drive_gcnf_ign, tokens: GCNF_TOKENS, docs: GCNF_DOCS, text: true, streaming: true, item_roundtrip: false, has_writer: true },
    Fmt { name: "satlog", drive: drive_satlog, tokens: SATLOG_TOKENS, docs: SATLOG_DOCS, text: true, streaming: false, item_roundtrip: false, has_writer: false },
    Fmt { name: "satlog_ign", drive: drive_satlog_ign, tokens: SATLOG_TOKENS, docs: SATLOG_DOCS, text: true, streaming: false, item_roundtrip: false, has_writer: false },
    Fmt { name: "aag", drive: drive_aag, tokens: AAG_TOKENS, docs: AAG_DOCS, text: true, streaming: false, item_roundtrip: false, has_writer: true },
    Fmt { name: "aig", drive: drive_aig, tokens: AIG_TOKENS, docs: AIG_DOCS, text: false, streaming: false, item_roundtrip: false, has_writer: true },
    Fmt { name: "aag_stream", drive: drive_aag_stream, tokens: AAG_TOKENS, docs: AAG_DOCS, text: true, streaming: true, item_roundtrip: false, has_writer: false },
    Fmt { name: "aig_stream", drive: drive_aig_stream, tokens: AIG_TOKENS, docs: AIG_DOCS, text: false, streaming: true, item_roundtrip: false, has_writer: false },
];

pub fn inputs_of(f: &Fmt, tier: &str, seed: u64) -> (Vec<Vec<u8>>, String) {
    let mut inputs: Vec<Vec<u8>> = vec![];
    let n = if tier == "thorough" { 4 } else { 3 };
    let toks = f.tokens;
    // (a) every sequence of up to n tokens (btor2: up to 3 resp. 4; the others one less, their documents carry the structure)
    let n = if f.name == "btor2" { n } else { n - 1 };
    let mut idx: Vec<usize> = vec![];
    loop {
        let mut s = Vec::new();
        for &i in &idx {
            s.extend_from_slice(toks[i]);
            if f.text {
                s.push(b' ');
            }
        }
        inputs.push(s.clone());
        if f.text {
            if let Some(last) = s.last_mut() {
                *last = b'\n';
                inputs.push(s);
            }
        }
        let mut k = idx.len();
        loop {
            if k == 0 {
                idx = vec![0; idx.len() + 1];
                break;
            }
            k -= 1;
            if idx[k] + 1 < toks.len() {
                idx[k] += 1;
                for j in k + 1..idx.len() {
                    idx[j] = 0;
                }
                break;
            }
        }
        if idx.len() > n {
            break;
        }
    }
    // (b) curated documents, every prefix, and single-byte substitutions from a small byte set
    for d in f.docs {
        for k in 0..=d.len() {
            inputs.push(d[..k].to_vec());
        }
        let subs: &[u8] = if f.text { &[b' ', b'\n', b'0', b'9', b'a', b';', b'-', 0xff] } else { &[b' ', b'\n', b'0', b'9', 0x00, 0x7f, 0x80, 0xff] };
        for i in 0..d.len() {
            for &c in subs {
                let mut m = d.to_vec();
                m[i] = c;
                inputs.push(m);
            }
        }
    }
    // (c) seeded pseudo-random token sequences
    let mut r = Rng::new(seed ^ f.name.len() as u64);
    let extra = if tier == "thorough" { 20000 } else { 1500 };
    for _ in 0..extra {
        let len = 1 + r.below(14);
        let mut s = Vec::new();
        for _ in 0..len {
            s.extend_from_slice(toks[r.below(toks.len())]);
            if f.text && r.below(4) != 0 {
                s.push(b' ');
            }
        }
        if r.below(2) == 0 {
            s.push(b'\n');
        }
        inputs.push(s);
    }
    inputs.sort();
    inputs.dedup();
    let bound = format!(
        "{}: token sequences of length <= {} over {} tokens, {} curated documents with all prefixes and single-byte substitutions (C01/C14: the documents under all 81 chunk x read sizes 1..9, their prefixes under 45 of them, the source leaving scratch bytes behind the data it returns), {} seeded random token sequences; schedules (chunk,read) (16384,all) (1,1) (2,3) (3,2) (7,all) (16384,line by line) and two with transient Interrupted results; for C04 a fault at every offset (every third one inside long documents) with error kinds Other/UnexpectedEof/BrokenPipe/TimedOut",
        f.name, n, toks.len(), f.docs.len(), extra
    );
    (inputs, bound)
}

pub fn suite(fname: &str, prop: &str, tier: &str, seed: u64) -> Report {
    let mut rep = Report::new();
    let f = match FORMATS.iter().find(|f| f.name == fname) {
        Some(f) => f,
        None => {
            rep.bound = format!("unknown format {}", fname);
            return rep;
        }
    };
    let (inputs, bound) = inputs_of(f, tier, seed);
    rep.bound = bound;
    start_watchdog(30);
    rep.inputs = inputs.len() as u64;
    if f.name == "btor2" && (prop == "all" || prop == "C03") {
        btor2_values(&mut rep);
    }
    for inp in &inputs {
        if inp.iter().any(|&b| b != b' ' && b != b'\n') {
            rep.nontrivial += 1;
        }
        check_input(f, inp, prop, &mut rep);
    }
    rep
}
pub fn replay(fname: &str, prop: &str, args: &[String]) -> i32 {
    if args[0] == "value" {
        let mut rep = Report::new();
        btor2_values(&mut rep);
        let mut code = 0;
        for x in &rep.failures {
            if x.replay == args {
                println!("FAILS {}: {}: {}", x.check, x.input, x.detail);
                code = 1;
            }
        }
        return code;
    }
    let f = FORMATS.iter().find(|f| f.name == fname).expect("format");
    let input = unhex(&args[0]);
    let s = Sched::from_args(&args[1..]);
    println!("format {} input {:?}", fname, show(&input));
    println!("this schedule {:?}: {:?}", s, run(f, &input, s));
    println!("one-shot, no fault: {:?}", run(f, &input, ONE_SHOT));
    let mut rep = Report::new();
    check_input(f, &input, prop, &mut rep);
    for x in &rep.failures {
        println!("FAILS {}: {:?}: {}", x.check, x.replay, x.detail);
    }
    if rep.failures.is_empty() {
        0
    } else {
        1
    }
}

// ---------------------------------------------------------------- BTOR2 values built through the public constructors (C03, value domain)
pub fn btor2_values(rep: &mut Report) {
    use flussab_btor2::btor2::{BinaryConst, Const, DecimalConst, HexConst, Line, Node, NodeId, NodeVariant, Value, ValueVariant};
    let f = FORMATS.iter().find(|f| f.name == "btor2").unwrap();
    let alpha: [&str; 11] = ["0", "1", "9", "a", "f", "g", "A", "-", " ", "x", "7"];
    let mut strings: Vec<String> = vec![String::new()];
    let mut level: Vec<String> = vec![String::new()];
    for _ in 0..3 {
        let mut next = vec![];
        for s in &level {
            for a in alpha {
                next.push(format!("{}{}", s, a));
            }
        }
        strings.extend(next.iter().cloned());
        level = next;
    }
    for s in &strings {
        for kind in 0..3 {
            let c: Option<Const> = match kind {
                0 => BinaryConst::try_from(s.as_str()).ok().map(Const::Binary),
                1 => HexConst::try_from(s.as_str()).ok().map(Const::Hex),
                _ => DecimalConst::try_from(s.as_str()).ok().map(Const::Decimal),
            };
            let c = match c {
                Some(c) => c,
                None => continue,
            };
            let line = Line::Node(Node { id: NodeId::new(3), variant: NodeVariant::Value(Value { sort: NodeId::new(1), variant: ValueVariant::Const(c) }), symbol: None, comment: None });
            let bytes = to_bytes(|w| line.write_into(w));
            rep.inputs += 1;
            rep.nontrivial += 1;
            // the third way of writing a line: its Display form is the written line without the line break
            let shown = format!("{}\n", line);
            if shown.as_bytes() != &bytes[..] {
                rep.fail("C03 the Display form of a BTOR2 line is the line that write_into writes", format!("{} constant {:?}", ["binary", "hex", "decimal"][kind], s), vec!["value".into(), kind.to_string(), s.clone()], format!("write_into: {:?}, Display: {:?}", show(&bytes), shown));
            }
            let o = run(f, &bytes, ONE_SHOT);
            rep.runs += 1;
            if o.end != End::Clean || o.items != vec![format!("{:?}", line)] {
                rep.fail(
                    "C03 parse(write(v)) == v for BTOR2 constants built through the public constructors",
                    format!("{} constant {:?}", ["binary", "hex", "decimal"][kind], s),
                    vec!["value".into(), kind.to_string(), s.clone()],
                    format!("written as {:?}, parsed as {:?} {:?}", show(&bytes), o.items, o.end),
                );
            }
        }
    }
}
