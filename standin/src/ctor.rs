//! The public constructors of every parser (`from_read`, `from_boxed_dyn_read`, `from_buf_reader` with an unused and with a
//! pre-filled `BufReader`) against `new(LineReader::new(DeferredReader::from_read(..)))`, which the other suites use: same items
//! and same end for every way of building the parser (C01), under line-by-line delivery no more of the source pulled before the first item than the reference needs, and no read
//! after the source ended (C09).
use std::io::{BufRead, BufReader};
use std::panic::{catch_unwind, AssertUnwindSafe};
use std::rc::Rc;

use flussab::text::LineReader;
use flussab::DeferredReader;

use crate::common::*;

#[derive(PartialEq, Eq, Debug, Clone)]
struct Out {
    items: Vec<String>,
    end: String,
    /// bytes the source had delivered when the first item was handed out
    calls_at_first: usize,
    calls_after_end: usize,
}

macro_rules! end_str {
    ($e:expr) => {
        format!("{}", $e)
    };
}
/// drives a DIMACS parser built by `$build` (an expression of type Result<Parser, ParseError>)
macro_rules! dimacs_out {
    ($build:expr, $m:expr) => {{
        let mut items = vec![];
        let mut first = usize::MAX;
        let end = match $build {
            Err(e) => end_str!(e),
            Ok(mut p) => {
                if let Some(h) = p.header() {
                    items.push(format!("{:?}", h));
                    first = $m.delivered.get();
                }
                loop {
                    match p.next_clause() {
                        Ok(Some(c)) => {
                            items.push(format!("{:?}", c));
                            if first == usize::MAX {
                                first = $m.delivered.get();
                            }
                        }
                        Ok(None) => break "clean".to_string(),
                        Err(e) => break end_str!(e),
                    }
                    if items.len() > 4096 {
                        break "endless".to_string();
                    }
                }
            }
        };
        Out { items, end, calls_at_first: first, calls_after_end: $m.calls_after_end.get() }
    }};
}
macro_rules! btor2_out {
    ($build:expr, $m:expr) => {{
        let mut items = vec![];
        let mut first = usize::MAX;
        let end = match $build {
            Err(e) => end_str!(e),
            Ok(mut p) => loop {
                match p.next_line() {
                    Ok(Some(l)) => {
                        items.push(format!("{:?}", l));
                        if first == usize::MAX {
                            first = $m.delivered.get();
                        }
                    }
                    Ok(None) => break "clean".to_string(),
                    Err(e) => break end_str!(e),
                }
                if items.len() > 4096 {
                    break "endless".to_string();
                }
            },
        };
        Out { items, end, calls_at_first: first, calls_after_end: $m.calls_after_end.get() }
    }};
}
macro_rules! aiger_out {
    ($build:expr, $m:expr) => {{
        let mut items = vec![];
        let end = match $build {
            Err(e) => end_str!(e),
            Ok(p) => {
                items.push(format!("{:?}", p.header()));
                match p.parse() {
                    Ok(a) => {
                        items.push(format!("{:?}", a));
                        "clean".to_string()
                    }
                    Err(e) => end_str!(e),
                }
            }
        };
        Out { items, end, calls_at_first: usize::MAX, calls_after_end: $m.calls_after_end.get() }
    }};
}

const WAYS: &[&str] = &["new", "from_read", "from_boxed_dyn_read", "from_buf_reader(unused, capacity 1)", "from_buf_reader(unused, capacity 8192)", "from_buf_reader(pre-filled, capacity 1)", "from_buf_reader(pre-filled, capacity 7)", "from_buf_reader(pre-filled, capacity 8192)", "new on a reader that was advanced over a 7-byte preamble", "from_buf_reader(unused, capacity 0)"];

fn buf_reader(way: usize, src: Src) -> BufReader<Src> {
    let cap = match way {
        9 => 0,
        3 | 5 => 1,
        6 => 7,
        _ => 8192,
    };
    let mut b = BufReader::with_capacity(cap, src);
    if (5..=7).contains(&way) {
        let _ = b.fill_buf();
    }
    b
}
/// one parse of `doc` by format `f`, built in way `way`, under schedule `sched`
const PREAMBLE: &[u8] = b"\xef\xbb\xbfx\n\ny";
fn run(f: &str, way: usize, doc: &[u8], sched: Sched) -> (Out, Rc<Meter>) {
    // way 8: the document follows a preamble that the caller consumed before wrapping the reader (line 1 starts at the reader's position)
    let mut with_preamble = PREAMBLE.to_vec();
    with_preamble.extend_from_slice(doc);
    let mut sched = sched;
    if way == 8 {
        sched.fail_at = sched.fail_at.map(|(k, kind)| (k + PREAMBLE.len(), kind));
    }
    let (src, m) = Src::new(if way == 8 { &with_preamble } else { doc }, sched);
    macro_rules! build {
        ($parser:ty, $cfg:expr) => {
            match way {
                0 => {
                    let mut r = DeferredReader::from_read(src);
                    r.set_chunk_size(16384);
                    <$parser>::new(LineReader::new(r), $cfg)
                }
                8 => {
                    let mut r = DeferredReader::from_read(src);
                    r.set_chunk_size(16384);
                    r.request(PREAMBLE.len());
                    r.advance(PREAMBLE.len());
                    <$parser>::new(LineReader::new(r), $cfg)
                }
                1 => <$parser>::from_read(src, $cfg),
                2 => <$parser>::from_boxed_dyn_read(Box::new(src), $cfg),
                _ => <$parser>::from_buf_reader(buf_reader(way, src), $cfg),
            }
        };
    }
    let out = match f {
        "cnf" => dimacs_out!(build!(flussab_cnf::cnf::Parser<i32>, flussab_cnf::cnf::Config::default()), m),
        "wcnf" => dimacs_out!(build!(flussab_cnf::wcnf::Parser<i32>, flussab_cnf::wcnf::Config::default()), m),
        "gcnf" => dimacs_out!(build!(flussab_cnf::gcnf::Parser<i32>, flussab_cnf::gcnf::Config::default()), m),
        "cnf_ign" => dimacs_out!(build!(flussab_cnf::cnf::Parser<i32>, flussab_cnf::cnf::Config::default().ignore_header(true)), m),
        "wcnf_ign" => dimacs_out!(build!(flussab_cnf::wcnf::Parser<i32>, flussab_cnf::wcnf::Config::default().ignore_header(true)), m),
        "gcnf_ign" => dimacs_out!(build!(flussab_cnf::gcnf::Parser<i32>, flussab_cnf::gcnf::Config::default().ignore_header(true)), m),
        "btor2" => btor2_out!(build!(flussab_btor2::Parser, flussab_btor2::Config::default()), m),
        "aag" => aiger_out!(build!(flussab_aiger::ascii::Parser<u32>, flussab_aiger::ascii::Config::default()), m),
        _ => aiger_out!(build!(flussab_aiger::binary::Parser<u32>, flussab_aiger::binary::Config::default()), m),
    };
    (out, m)
}

const DOCS: &[(&str, &[u8])] = &[
    ("cnf", b"c first\np cnf 3 2\n1 -2 0\nc between\n2 3\n-1 0\n"),
    ("cnf", b"1 2 0\n-1 0"),
    ("cnf", b"p cnf 2 1\n1 x 0\n"),
    ("cnf", b""),
    ("wcnf", b"p wcnf 3 2 10\n10 1 -2 0\n3 2 3 0\n"),
    ("wcnf", b"p wcnf 3 2\n1 1 0\n1 -1 0\n1 3 0\n"),
    ("gcnf", b"p gcnf 3 2 2\n{0} 1 -2 0\n{2} 3 0\n"),
    ("gcnf", b"p gcnf 3 2 2\n{3} 1 0\n"),
    // the configuration has to reach the parser through every constructor: documents that only an ignored header lets through
    ("cnf_ign", b"p cnf 2 1\n1 2 3 0\n-4 0\n"),
    ("wcnf_ign", b"p wcnf 2 1 5\n9 1 2 3 0\n1 -4 0\n"),
    ("gcnf_ign", b"p gcnf 2 1 1\n{3} 1 2 3 0\n{0} -4 0\n"),
    ("btor2", b"1 sort bitvec 1\n2 input 1 a ; comment\n3 not 1 2\n4 bad 3\n"),
    ("btor2", b"; comment\n1 sort bitvec 8\n2 constd 1 -5\n3 bogus\n"),
    ("btor2", b""),
    ("aag", b"aag 3 1 1 1 1\n2\n4 6\n6\n6 2 4\ni0 in\nl0 st\no0 out\nc\ncomment\n"),
    ("aag", b"aag 1 1 0 1 0\n2\n3\n"),
    ("aag", b"aag 1 1 0 1 0\n2\nx\n"),
    ("aig", b"aig 3 1 1 1 1\n6\n6\n\x02\x02i0 in\nc\ncomment\n"),
    ("aig", b"aig 1 1 0 1 0\n3\n"),
    ("aig", b"aig 1 1 0"),
];
const SCHEDS: &[Sched] = &[
    ONE_SHOT,
    Sched { chunk: 16384, mode: Mode::Step(1), fail_at: None, interrupt: 0 },
    Sched { chunk: 16384, mode: Mode::Lines, fail_at: None, interrupt: 0 },
    Sched { chunk: 16384, mode: Mode::Step(5), fail_at: None, interrupt: 2 },
    Sched { chunk: 16384, mode: Mode::Lines, fail_at: Some((11, 0)), interrupt: 0 },
];

fn case(di: usize, way: usize, si: usize) -> Option<(String, String)> {
    let (f, doc) = DOCS[di];
    let sched = SCHEDS[si];
    set_case("C01 the parser terminates", &format!("{} parser built by {} on {:?}", f, WAYS[way], show(doc)), &[di.to_string(), way.to_string(), si.to_string()]);
    let what = format!("{} parser on {:?} under schedule {:?}", f, show(doc), sched);
    let reference = match catch_unwind(AssertUnwindSafe(|| run(f, 0, doc, sched))) {
        Ok(r) => r.0,
        Err(p) => return Some(("C01 building and driving a parser returns instead of panicking".into(), format!("{} built by new: panic: {}", what, panic_msg(p)))),
    };
    let (got, m) = match catch_unwind(AssertUnwindSafe(|| run(f, way, doc, sched))) {
        Ok(r) => r,
        Err(p) => return Some(("C01 building and driving a parser returns instead of panicking".into(), format!("{} built by {}: panic: {}", what, WAYS[way], panic_msg(p)))),
    };
    if got.items != reference.items || got.end != reference.end {
        let name = if way == 8 && PROP_NO.load(std::sync::atomic::Ordering::Relaxed) == 8 { "C08 an error is located relative to the position at which the LineReader was created" } else { "C01 same result for every way of building the parser" };
        return Some((name.into(), format!("{}: built by new: {:?} then {:?}; built by {}: {:?} then {:?}", what, reference.items, reference.end, WAYS[way], got.items, got.end)));
    }
    // (with a pre-filled BufReader the end may have been reported to the BufReader, which is not the parser's doing)
    if got.calls_after_end > 0 && way < 5 {
        return Some(("C09 the source is not called again after it reported the end".into(), format!("{} built by {}: {} further calls", what, WAYS[way], got.calls_after_end)));
    }
    // line-by-line delivery: however the parser was built (and whatever read size that implies), its first item is handed out
    // without pulling more of the source than the parser built by `new` needs, i.e. the lines up to the one that completes the item
    if matches!(sched.mode, Mode::Lines) && sched.fail_at.is_none() && way != 8 && !(5..=7).contains(&way) && got.calls_at_first != usize::MAX && got.calls_at_first > reference.calls_at_first {
        return Some(("C09 the first item is handed out without reading past the line that completes it".into(), format!("{}: {} bytes delivered with new, {} with {}", what, reference.calls_at_first, got.calls_at_first, WAYS[way])));
    }
    let _ = m;
    None
}

pub fn suite(_prop: &str, _tier: &str, _seed: u64) -> Report {
    let mut rep = Report::new();
    start_watchdog(20);
    for di in 0..DOCS.len() {
        rep.inputs += 1;
        rep.nontrivial += 1;
        for way in 1..WAYS.len() {
            for si in 0..SCHEDS.len() {
                rep.runs += 1;
                if let Some((check, detail)) = case(di, way, si) {
                    rep.fail(&check, show(DOCS[di].1), vec![di.to_string(), way.to_string(), si.to_string()], detail);
                }
            }
        }
    }
    rep.bound = format!("ctor: {} documents (cnf, wcnf, gcnf with default configuration and with ignore_header, btor2, ascii and binary AIGER; well-formed, malformed, truncated, empty) x 9 ways of building the parser (from_buf_reader with an unused BufReader of capacity 0, new on a reader that was advanced over a preamble, from_read, from_boxed_dyn_read, from_buf_reader with an unused BufReader of capacity 1/8192 and a pre-filled one of capacity 1/7/8192) x {} schedules (one read, byte by byte, line by line, 5 bytes with every 2nd read interrupted, line by line with a fault at offset 11), each compared with the parser built by new(LineReader::new(DeferredReader::from_read(..)))", DOCS.len(), SCHEDS.len());
    rep
}
pub fn replay(_prop: &str, args: &[String]) -> i32 {
    let v: Vec<usize> = args.iter().map(|x| x.parse().unwrap()).collect();
    match case(v[0], v[1], v[2]) {
        Some((c, d)) => {
            println!("FAILS {}: {}", c, d);
            1
        }
        None => 0,
    }
}
