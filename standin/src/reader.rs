//! DeferredReader against a model of "a window onto the source stream" (C02), its read discipline (C09), its memory (C10)
//! and its state after caught panics (C14): every operation sequence up to a length, over several sources and schedules.
use std::io::{BufRead, BufReader};
use std::panic::{catch_unwind, AssertUnwindSafe};

use flussab::DeferredReader;

use crate::common::*;

#[derive(Clone, Copy, Debug, PartialEq, Eq)]
pub enum Op {
    Req(usize),
    ByteAt(usize),
    Adv(usize),
    AdvAll,
    AdvTooFar,
    SetMark,
    More,
    CheckIo,
    /// set_chunk_size in the middle of a history
    Chunk(usize),
}
pub const OPS: &[Op] = &[Op::Req(0), Op::Req(1), Op::Req(2), Op::Req(3), Op::Req(5), Op::Req(9), Op::ByteAt(0), Op::ByteAt(1), Op::ByteAt(4), Op::Adv(1), Op::Adv(2), Op::Adv(3), Op::AdvAll, Op::AdvTooFar, Op::SetMark, Op::More, Op::CheckIo, Op::Chunk(64), Op::Chunk(1), Op::Adv(12)];

#[derive(Clone, Copy, Debug)]
pub struct Cfg {
    pub len: usize,
    pub sched: Sched,
    /// Some(capacity): built from a BufReader of that capacity that already holds data
    pub bufreader: Option<usize>,
}
fn data(len: usize) -> Vec<u8> {
    (0..len).map(|i| (i * 7 + 1) as u8).collect()
}
fn case_reader(codes: &[u8], n: &[i64]) -> (String, String, Vec<String>) {
    let ops: Vec<Op> = codes.iter().map(|&c| OPS[c as usize]).collect();
    let sched = Sched { chunk: n[2] as usize, mode: if n[3] < 0 { Mode::Lines } else { Mode::Step(n[3] as usize) }, fail_at: if n[4] < 0 { None } else { Some((n[4] as usize, n[5] as usize)) }, interrupt: n[6] as usize };
    let cfg = Cfg { len: n[0] as usize, sched, bufreader: if n[1] < 0 { None } else { Some(n[1] as usize) } };
    let mut a = vec!["seq".to_string(), op_str(&ops)];
    a.extend(cfg_args(&cfg));
    ("C02 the reader operation terminates".into(), format!("reader {:?} operations {}", cfg, op_str(&ops)), a)
}
fn op_code(o: &Op) -> String {
    match o {
        Op::Req(n) => format!("r{}", n),
        Op::ByteAt(n) => format!("b{}", n),
        Op::Adv(n) => format!("a{}", n),
        Op::AdvAll => "A".into(),
        Op::AdvTooFar => "X".into(),
        Op::SetMark => "m".into(),
        Op::More => "M".into(),
        Op::CheckIo => "c".into(),
        Op::Chunk(n) => format!("k{}", n),
    }
}
fn op_str(ops: &[Op]) -> String {
    ops.iter()
        .map(|o| match o {
            Op::Req(n) => format!("r{}", n),
            Op::ByteAt(n) => format!("b{}", n),
            Op::Adv(n) => format!("a{}", n),
            Op::AdvAll => "A".into(),
            Op::AdvTooFar => "X".into(),
            Op::SetMark => "m".into(),
            Op::More => "M".into(),
            Op::CheckIo => "c".into(),
            Op::Chunk(n) => format!("k{}", n),
        })
        .collect::<Vec<_>>()
        .join(",")
}
fn parse_ops(s: &str) -> Vec<Op> {
    s.split(',')
        .filter(|x| !x.is_empty())
        .map(|x| {
            let n = || x[1..].parse::<usize>().unwrap();
            match &x[..1] {
                "r" => Op::Req(n()),
                "b" => Op::ByteAt(n()),
                "a" => Op::Adv(n()),
                "A" => Op::AdvAll,
                "X" => Op::AdvTooFar,
                "m" => Op::SetMark,
                "M" => Op::More,
                "k" => Op::Chunk(n()),
                _ => Op::CheckIo,
            }
        })
        .collect()
}

/// runs one sequence; returns the first violated statement
pub fn run_seq(cfg: Cfg, ops: &[Op], prop: &str) -> Option<(String, String)> {
    // only AdvTooFar is documented to panic (and is caught where it is issued): any other panic is a wrong answer
    match catch_unwind(AssertUnwindSafe(|| run_seq_inner(cfg, ops, prop))) {
        Ok(r) => r,
        Err(p) => Some(("C02 an operation within its documented domain returns instead of panicking".into(), format!("panic: {}", panic_msg(p)))),
    }
}
fn run_seq_inner(cfg: Cfg, ops: &[Op], prop: &str) -> Option<(String, String)> {
    {
        let mut codes = [0u8; 64];
        for (i, o) in ops.iter().take(64).enumerate() {
            codes[i] = OPS.iter().position(|x| x == o).unwrap_or(0) as u8;
        }
        let (fa, fk) = cfg.sched.fail_at.map(|f| (f.0 as i64, f.1 as i64)).unwrap_or((-1, 0));
        let step = match cfg.sched.mode {
            Mode::Step(n) => n as i64,
            Mode::Lines => -1,
        };
        set_case_raw(case_reader, &codes[..ops.len().min(64)], &[cfg.len as i64, cfg.bufreader.map(|x| x as i64).unwrap_or(-1), cfg.sched.chunk as i64, step, fa, fk, cfg.sched.interrupt as i64]);
    }
    let all = prop == "all";
    let c02 = all || prop == "C02" || prop == "C14";
    let c09 = all || prop == "C09";
    let d = data(cfg.len);
    let limit = cfg.sched.fail_at.map(|f| f.0).unwrap_or(d.len()).min(d.len());
    let (src, m) = Src::new(&d, cfg.sched);
    let mut reader = match cfg.bufreader {
        Some(cap) => {
            // cap >= 1000: a BufReader of capacity cap - 1000 that has not been used yet (nothing buffered)
            let mut br = BufReader::with_capacity(cap % 1000, src);
            if cap < 1000 {
                let _ = br.fill_buf();
            }
            let calls_before = m.calls.get();
            let r = DeferredReader::from_buf_reader(br);
            if c09 && m.calls.get() != calls_before {
                return Some(("C09 no read without a refill request".into(), format!("from_buf_reader called the source {} time(s) while the reader was built", m.calls.get() - calls_before)));
            }
            r
        }
        // both plain constructors: the boxed one for the configurations with interrupted reads
        None if cfg.sched.interrupt != 0 => DeferredReader::from_boxed_dyn_read(Box::new(src)),
        None => DeferredReader::from_read(src),
    };
    // (capacity-0 BufReader: the chunk size the constructor chose stays, so that a constructor deriving it from the capacity shows)
    if cfg.bufreader != Some(1000) {
        reader.set_chunk_size(cfg.sched.chunk);
    }
    let mut pos = 0usize;
    let mut mark = 0usize;
    let mut err_reported = false;
    macro_rules! bad {
        ($c:expr, $($a:tt)*) => { return Some(($c.to_string(), format!($($a)*))) };
    }
    // what every state has to satisfy
    macro_rules! state {
        ($after:expr) => {{
            let b = reader.buf().to_vec();
            if c02 {
                if reader.position() != pos {
                    bad!("C02 position equals the number of bytes advanced over", "after {}: position() = {}, advanced over {}", $after, reader.position(), pos);
                }
                // buf_ptr() points at the same buf_len() bytes as buf()
                if unsafe { std::slice::from_raw_parts(reader.buf_ptr(), reader.buf_len()) } != &b[..] && reader.buf_len() == b.len() {
                    bad!("C02 the exposed bytes are the next bytes of the source", "after {}: buf_ptr() does not point at the bytes of buf()", $after);
                }
                if reader.buf_len() != b.len() {
                    bad!("C02 buf_len is the length of the exposed data", "after {}: buf_len() = {}, buf().len() = {}", $after, reader.buf_len(), b.len());
                }
                if pos + b.len() > limit || b[..] != d[pos..pos + b.len()] {
                    bad!("C02 the exposed bytes are the next bytes of the source", "after {}: at position {} the reader exposes {:?}, the source continues with {:?}", $after, pos, b, &d[pos..limit.min(pos + b.len() + 2)]);
                }
                if reader.mark() != mark {
                    bad!("C02 the mark keeps designating the same stream offset", "after {}: mark() = {}, set at {}", $after, reader.mark(), mark);
                }
                let ended = m.ended.get() && (cfg.bufreader.is_none() || m.calls.get() > 0);
                if reader.is_complete() != (m.ended.get()) && !(cfg.bufreader.is_some() && !ended) {
                    bad!("C02 is_complete is true exactly when the source ended or failed", "after {}: is_complete() = {}, the source has {} its end", $after, reader.is_complete(), if m.ended.get() { "reported" } else { "not reported" });
                }
                if reader.is_at_end() != (reader.is_complete() && b.is_empty()) {
                    bad!("C02 is_at_end is complete and nothing buffered", "after {}: is_at_end() = {}", $after, reader.is_at_end());
                }
                if reader.io_error().is_some() != (m.failed.get() && !err_reported) {
                    bad!("C02 a source failure is held until it is reported", "after {}: io_error() is {:?}, source failed: {}, already reported: {}", $after, reader.io_error().map(|e| e.kind()), m.failed.get(), err_reported);
                }
            }
            if c09 && m.calls_after_end.get() > 0 {
                bad!("C09 the source is not called again after it reported its end or an error", "after {}: {} further calls", $after, m.calls_after_end.get());
            }
            b
        }};
    }
    let mut before = state!("construction");
    for (i, &op) in ops.iter().enumerate() {
        let what = format!("op {} ({:?})", i, op);
        let calls0 = m.calls.get();
        let reads0 = m.successful_reads.get();
        let ended0 = m.ended.get();
        match op {
            Op::Req(n) => {
                let got = reader.request(n).len();
                if c02 && got < n && !m.ended.get() {
                    bad!("C02 a request falls short only when the source ended or failed", "{}: {} of {} bytes although the source has not ended", what, got, n);
                }
                if c09 && before.len() >= n && m.calls.get() != calls0 {
                    bad!("C09 no read when the buffered data satisfies the request", "{}: {} bytes were buffered, {} calls of the source", what, before.len(), m.calls.get() - calls0);
                }
                if c09 && m.successful_reads.get() > reads0 && m.delivered.get() - m.last_read.get() >= pos_of(&cfg, pos, &m) + n && before.len() < n {
                    bad!("C09 reading stops as soon as the request is satisfied", "{}: the last read of {} bytes came after {} bytes had already been delivered", what, m.last_read.get(), m.delivered.get() - m.last_read.get());
                }
            }
            Op::ByteAt(k) => {
                let got = reader.request_byte_at_offset(k);
                let want = if pos + k < limit { Some(d[pos + k]) } else { None };
                if c02 {
                    match (got, want) {
                        (Some(a), Some(b)) if a != b => bad!("C02 the exposed bytes are the next bytes of the source", "{}: got {}, the source has {}", what, a, b),
                        (Some(a), None) => bad!("C02 the exposed bytes are the next bytes of the source", "{}: got {} beyond the end of the source", what, a),
                        (None, _) if !m.ended.get() => bad!("C02 a request falls short only when the source ended or failed", "{}: None although the source has not ended", what),
                        _ => {}
                    }
                }
                if k == 0 {
                    // request_byte() is request_byte_at_offset(0): the byte is buffered now (or the end is known), so it agrees without a read
                    let calls1 = m.calls.get();
                    let again = reader.request_byte();
                    if c02 && again != got {
                        bad!("C02 the exposed bytes are the next bytes of the source", "{}: request_byte() = {:?} after request_byte_at_offset(0) = {:?}", what, again, got);
                    }
                    if c09 && m.calls.get() != calls1 && (got.is_some() || m.calls_after_end.get() > 0) {
                        bad!("C09 no read when the buffered data satisfies the request", "{}: request_byte() called the source although the byte was buffered", what);
                    }
                }
                if c09 && before.len() > k && m.calls.get() != calls0 {
                    bad!("C09 no read when the buffered data satisfies the request", "{}: {} bytes were buffered, {} calls of the source", what, before.len(), m.calls.get() - calls0);
                }
                if c09 && m.successful_reads.get() > reads0 && m.delivered.get() - m.last_read.get() > pos_of(&cfg, pos, &m) + k && before.len() <= k {
                    bad!("C09 reading stops as soon as the request is satisfied", "{}: the last read of {} bytes came after {} bytes had already been delivered", what, m.last_read.get(), m.delivered.get() - m.last_read.get());
                }
            }
            Op::Adv(n) => {
                if n <= before.len() {
                    reader.advance(n);
                    pos += n;
                    if c02 && reader.buf_len() != before.len() - n {
                        bad!("C02 advancing drops exactly the bytes advanced over", "{}: {} bytes buffered before, {} after", what, before.len(), reader.buf_len());
                    }
                }
            }
            Op::AdvAll => {
                let n = before.len();
                let got = reader.advance_with_buf(n).to_vec();
                pos += n;
                if c02 && got != before {
                    bad!("C02 advance_with_buf returns the bytes advanced over", "{}: {:?} instead of {:?}", what, got, before);
                }
            }
            Op::AdvTooFar => {
                // documented to panic; a caller may catch that (C14): the reader must still be a window onto the source
                let n = before.len() + 1;
                let r = catch_unwind(AssertUnwindSafe(|| reader.advance(n)));
                if r.is_ok() && c02 {
                    bad!("C14 advancing beyond the buffered data panics", "{}: advance({}) with {} bytes buffered returned", what, n, before.len());
                }
            }
            Op::SetMark => {
                // the two ways of marking the current position (alternating, `state!` checks mark() afterwards)
                if i % 2 == 0 {
                    reader.set_mark();
                } else {
                    let p = reader.position();
                    reader.set_mark_to_position(p);
                }
                mark = pos;
            }
            Op::More => {
                let r = reader.request_more();
                if c09 && m.successful_reads.get() > reads0 + 1 {
                    bad!("C09 exactly one successful read per refill", "{}: {} successful reads", what, m.successful_reads.get() - reads0);
                }
                if c09 && ended0 && m.calls.get() != calls0 {
                    bad!("C09 the source is not called again after it reported its end or an error", "{}: called again", what);
                }
                // false only when the end (or a failure) of the source was already known and nothing was attempted
                if c02 && r != !ended0 {
                    bad!("C02 request_more reports whether a read was attempted", "{}: returned {}, the source had {} its end before", what, r, if ended0 { "reported" } else { "not reported" });
                }
                if c02 && !r && !m.ended.get() {
                    bad!("C02 a request falls short only when the source ended or failed", "{}: request_more() = false although the source has not ended", what);
                }
            }
            Op::Chunk(n) => {
                // changes how much later refills may read; what is buffered, position, mark and flags stay (checked by `state!`)
                reader.set_chunk_size(n);
                if c09 && m.calls.get() != calls0 {
                    bad!("C09 no read without a refill request", "{}: set_chunk_size called the source", what);
                }
                if c02 && reader.buf_len() != before.len() {
                    bad!("C02 buffered data is not lost", "{}: {} bytes buffered before, {} after", what, before.len(), reader.buf_len());
                }
            }
            Op::CheckIo => {
                let r = reader.check_io_error();
                let expect_err = m.failed.get() && !err_reported;
                if c02 && r.is_err() != expect_err {
                    bad!("C02 a source failure is reported exactly once", "{}: check_io_error() is {:?}", what, r.map_err(|e| e.kind()));
                }
                if r.is_err() {
                    err_reported = true;
                }
            }
        }
        let after = state!(what);
        // nothing that was buffered is lost by an operation other than advancing
        if c02 && !matches!(op, Op::Adv(_) | Op::AdvAll) && after.len() < before.len() {
            bad!("C02 buffered data is not lost", "{}: {} bytes buffered before, {} after", what, before.len(), after.len());
        }
        before = after;
    }
    None
}
// with a BufReader in front, bytes reach the reader in two hops; the read discipline is stated for the plain source only
fn pos_of(_cfg: &Cfg, pos: usize, _m: &Meter) -> usize {
    pos
}

pub fn configs() -> Vec<Cfg> {
    let mut v = vec![];
    for &chunk in &[1usize, 2, 4] {
        for &mode in &[Mode::Step(1), Mode::Step(3), Mode::Step(100)] {
            for &fail_at in &[None, Some((7usize, 0usize)), Some((0, 1))] {
                for &interrupt in &[0usize, 2] {
                    v.push(Cfg { len: 24, sched: Sched { chunk, mode, fail_at, interrupt }, bufreader: None });
                }
            }
        }
    }
    for &cap in &[1usize, 5, 64] {
        v.push(Cfg { len: 24, sched: Sched { chunk: 2, mode: Mode::Step(3), fail_at: None, interrupt: 0 }, bufreader: Some(cap) });
        v.push(Cfg { len: 24, sched: Sched { chunk: 4, mode: Mode::Step(100), fail_at: Some((9, 0)), interrupt: 0 }, bufreader: Some(cap) });
    }
    v.push(Cfg { len: 0, sched: Sched { chunk: 4, mode: Mode::Step(100), fail_at: None, interrupt: 0 }, bufreader: None });
    // a BufReader that was wrapped around the source but not used yet, over sources that deliver, end or fail at once
    for &fail_at in &[None, Some((0usize, 1usize)), Some((7, 0))] {
        v.push(Cfg { len: 24, sched: Sched { chunk: 2, mode: Mode::Step(3), fail_at, interrupt: 0 }, bufreader: Some(1005) });
    }
    v.push(Cfg { len: 0, sched: Sched { chunk: 4, mode: Mode::Step(100), fail_at: None, interrupt: 0 }, bufreader: Some(1005) });
    // a BufReader of capacity 0 (a valid pass-through Read)
    v.push(Cfg { len: 24, sched: Sched { chunk: 2, mode: Mode::Step(3), fail_at: None, interrupt: 0 }, bufreader: Some(1000) });
    v
}
fn cfg_args(c: &Cfg) -> Vec<String> {
    let mut a = vec![c.len.to_string(), c.bufreader.map(|x| x.to_string()).unwrap_or("-".into())];
    a.extend(c.sched.args());
    a
}
fn cfg_from(a: &[String]) -> Cfg {
    Cfg { len: a[0].parse().unwrap(), bufreader: a[1].parse().ok(), sched: Sched::from_args(&a[2..]) }
}

/// C14: a source that claims to have delivered more bytes than the slice it was given (its `lie_at`-th call returns the slice
/// length + `extra`). Whatever the reader does with that call (the real code panics in a load-bearing assert), afterwards it must
/// still expose only bytes the source actually wrote.
struct Liar {
    data: Vec<u8>,
    pos: usize,
    calls: usize,
    lie_at: usize,
    extra: usize,
    step: usize,
    copied: std::rc::Rc<std::cell::Cell<usize>>,
}
impl std::io::Read for Liar {
    fn read(&mut self, buf: &mut [u8]) -> std::io::Result<usize> {
        self.calls += 1;
        let n = buf.len().min(self.step).min(self.data.len() - self.pos);
        buf[..n].copy_from_slice(&self.data[self.pos..self.pos + n]);
        self.pos += n;
        self.copied.set(self.pos);
        if self.calls == self.lie_at {
            return Ok(buf.len() + self.extra);
        }
        Ok(n)
    }
}
fn liar_case(first_chunk: usize, adv: usize, second_chunk: usize, extra: usize, step: usize) -> Option<(String, String)> {
    set_case("C14 the reader operation terminates", &format!("lying source: chunk {} then {}, advance {}, {} bytes more than the slice", first_chunk, second_chunk, adv, extra), &["liar".to_string(), first_chunk.to_string(), adv.to_string(), second_chunk.to_string(), extra.to_string(), step.to_string()]);
    let d = data(200);
    let copied = std::rc::Rc::new(std::cell::Cell::new(0usize));
    let mut reader = DeferredReader::from_read(Liar { data: d.clone(), pos: 0, calls: 0, lie_at: 2, extra, step, copied: copied.clone() });
    reader.set_chunk_size(first_chunk);
    reader.request_more();
    let adv = adv.min(reader.buf_len());
    reader.advance(adv);
    reader.set_chunk_size(second_chunk);
    let r = catch_unwind(AssertUnwindSafe(|| reader.request_more()));
    let what = format!("source of 200 bytes: chunk size {}, request_more, advance({}), chunk size {}, then a read() that returns {} more than the length of its slice: request_more() {}", first_chunk, adv, second_chunk, extra, if r.is_ok() { "returned" } else { "panicked" });
    let b = reader.buf().to_vec();
    if reader.buf_len() != b.len() {
        return Some(("C14 the exposed slice has the buffered length".into(), format!("{}; buf_len() = {}, buf().len() = {}", what, reader.buf_len(), b.len())));
    }
    if adv + b.len() > copied.get() || b[..] != d[adv..adv + b.len()] {
        return Some(("C14 only bytes that were read from the source are exposed".into(), format!("{}; afterwards {} bytes are exposed at position {}, the source wrote {} bytes in total; exposed {:?}", what, b.len(), adv, copied.get(), &b[..b.len().min(24)])));
    }
    if reader.position() != adv {
        return Some(("C14 only bytes that were read from the source are exposed".into(), format!("{}; position() = {} afterwards, {} bytes were advanced over", what, reader.position(), adv)));
    }
    None
}

/// C10: streaming with a fixed request size keeps the memory of the reader below a bound in chunk size and request size
fn memory_case(chunk: usize, req: usize, step: usize, total: usize, move_mark: bool) -> (usize, usize) {
    let d: Vec<u8> = vec![b'x'; total];
    let (src, _m) = Src::new(&d, Sched { chunk, mode: Mode::Step(step), fail_at: None, interrupt: 0 });
    let mark = mem_mark();
    let mut reader = DeferredReader::from_read(src);
    reader.set_chunk_size(chunk);
    reader.set_mark();
    loop {
        let n = reader.request(req).len().min(req);
        if n == 0 {
            break;
        }
        reader.advance(n);
        if move_mark {
            reader.set_mark();
        }
    }
    (mem_peak_since(mark), 64 * (chunk + req) + 4096)
}

pub fn suite(prop: &str, tier: &str, seed: u64) -> Report {
    let mut rep = Report::new();
    let all = prop == "all";
    let n = if tier == "thorough" { 5 } else { 4 };
    let cfgs = configs();
    start_watchdog(20);
    if all || prop == "C02" || prop == "C09" || prop == "C14" {
        for cfg in &cfgs {
            set_current(&format!("reader cfg {:?}", cfg));
            // every sequence of up to n operations
            let mut idx: Vec<usize> = vec![];
            loop {
                let ops: Vec<Op> = idx.iter().map(|&i| OPS[i]).collect();
                rep.runs += 1;
                if let Some((check, detail)) = run_seq(*cfg, &ops, prop) {
                    let mut a = vec!["seq".to_string(), op_str(&ops)];
                    a.extend(cfg_args(cfg));
                    rep.fail(&check, format!("source of {} bytes, {:?}, operations {}", cfg.len, cfg, op_str(&ops)), a, detail);
                }
                let mut k = idx.len();
                loop {
                    if k == 0 {
                        idx = vec![0; idx.len() + 1];
                        break;
                    }
                    k -= 1;
                    // sequences of 5 (thorough) are enumerated over the first 17 operations only; the three added later
                    // (set_chunk_size 64/1, advance 12) take part in every sequence of up to 4 and in the seeded long ones
                    if idx[k] + 1 < (if idx.len() > 4 { 17 } else { OPS.len() }) {
                        idx[k] += 1;
                        for j in k + 1..idx.len() {
                            idx[j] = 0;
                        }
                        break;
                    }
                }
                if idx.len() > n {
                    break;
                }
            }
            // seeded long sequences (realign and shrink need many advances)
            let mut r = Rng::new(seed ^ (cfg.sched.chunk as u64) << 8);
            for _ in 0..(if tier == "thorough" { 3000 } else { 300 }) {
                let len = 8 + r.below(40);
                let ops: Vec<Op> = (0..len).map(|_| OPS[r.below(OPS.len())]).collect();
                let cfg2 = Cfg { len: 200, ..*cfg };
                rep.runs += 1;
                if let Some((check, detail)) = run_seq(cfg2, &ops, prop) {
                    let mut a = vec!["seq".to_string(), op_str(&ops)];
                    a.extend(cfg_args(&cfg2));
                    rep.fail(&check, format!("source of {} bytes, {:?}, operations {}", cfg2.len, cfg2, op_str(&ops)), a, detail);
                }
            }
        }
        rep.inputs = rep.runs;
        rep.nontrivial = rep.runs;
    }
    if all || prop == "C14" || prop == "C02" {
        for &first in &[4usize, 16, 64] {
            for &adv in &[0usize, 3, 16] {
                for &second in &[1usize, 4, 64] {
                    for &extra in &[1usize, 5, 40, 100000] {
                        for &step in &[3usize, 1000] {
                            rep.runs += 1;
                            rep.inputs += 1;
                            if let Some((check, detail)) = liar_case(first, adv, second, extra, step) {
                                rep.fail(&check, format!("lying source, chunk {} then {}, advance {}, {} bytes too many", first, second, adv, extra), vec!["liar".into(), first.to_string(), adv.to_string(), second.to_string(), extra.to_string(), step.to_string()], detail);
                            }
                        }
                    }
                }
            }
        }
    }
    if all || prop == "C10" {
        for &(chunk, req, step) in &[(16usize, 8usize, 16usize), (64, 100, 7), (4096, 1, 4096), (16384, 300, 100), (1, 1, 1)] {
            for &move_mark in &[true, false] {
                for &total in &[1usize << 16, 1 << 20] {
                    set_current(&format!("reader memory chunk {} req {} total {}", chunk, req, total));
                    let (peak, bound) = memory_case(chunk, req, step, total, move_mark);
                    rep.runs += 1;
                    rep.inputs += 1;
                    rep.nontrivial += 1;
                    if peak > bound {
                        rep.fail(
                            "C10 reader memory is bounded by chunk size and request size",
                            format!("{} bytes streamed with request({}) / advance, chunk size {}, reads of {} bytes, mark {}", total, req, chunk, step, if move_mark { "moved along" } else { "set once at the start" }),
                            vec!["mem".into(), chunk.to_string(), req.to_string(), step.to_string(), total.to_string(), (move_mark as usize).to_string()],
                            format!("peak heap {} bytes, bound {}", peak, bound),
                        );
                    }
                }
            }
        }
    }
    rep.bound = format!(
        "reader: every sequence of up to {} operations out of {} (sequences of 5: out of the first 17; request 0/1/2/3/5/9, request_byte_at_offset 0/1/4 (offset 0 also through request_byte), advance 1/2/3/12, advance_with_buf(all), advance beyond the data (caught panic), set_mark / set_mark_to_position, request_more, check_io_error, set_chunk_size 64/1; buf_ptr compared with buf after every operation; any other panic is a failure) on a 24-byte source under {} configurations (chunk 1/2/4, reads of 1/3/all bytes, no fault / fault at 7 / fault at 0, transient Interrupted, built by from_read / from_boxed_dyn_read / from a pre-filled BufReader of capacity 1/5/64 / from an unused BufReader over a source that delivers, ends or fails at once, empty source), plus seeded sequences of 8..48 operations on a 200-byte source; C14: a source whose second read() claims 1/5/40/100000 bytes more than its slice holds, after chunk sizes 4/16/64 then 1/4/64 and an advance of 0/3/16; C10: 1 MiB streamed with 5 chunk/request combinations",
        n,
        OPS.len(),
        cfgs.len()
    );
    rep
}
pub fn replay(prop: &str, args: &[String]) -> i32 {
    if args[0] == "liar" {
        let v: Vec<usize> = args[1..].iter().map(|x| x.parse().unwrap()).collect();
        return match liar_case(v[0], v[1], v[2], v[3], v[4]) {
            Some((c, d)) => {
                println!("FAILS {}: {}", c, d);
                1
            }
            None => 0,
        };
    }
    if args[0] == "mem" {
        let v: Vec<usize> = args[1..].iter().map(|x| x.parse().unwrap()).collect();
        let (peak, bound) = memory_case(v[0], v[1], v[2], v[3], v[4] != 0);
        println!("peak heap {} bytes, bound {}", peak, bound);
        return if peak > bound { 1 } else { 0 };
    }
    let ops = parse_ops(&args[1]);
    let cfg = cfg_from(&args[2..]);
    println!("source bytes {:?}", data(cfg.len));
    println!("configuration {:?}, operations {:?}", cfg, ops);
    match run_seq(cfg, &ops, prop) {
        Some((c, d)) => {
            println!("FAILS {}: {}", c, d);
            1
        }
        None => 0,
    }
}
