//! The text scanners of flussab::text against reference definitions computed on the whole string (C13, C16): every short
//! string over a small alphabet and the boundary values of every integer type, at several offsets and amounts of buffered data.
use flussab::text;
use flussab::DeferredReader;

use crate::common::*;

/// a reader over `s` that has exactly min(pre, len) bytes buffered; later refills deliver `step` bytes with chunk size `chunk`
fn reader_with(s: &[u8], pre: usize, chunk: usize, step: usize) -> (DeferredReader<'static>, std::rc::Rc<Meter>) {
    let (src, m) = Src::new(s, Sched { chunk, mode: Mode::Step(step), fail_at: None, interrupt: 0 });
    let mut src = src;
    // the first read hands out the pre-buffered part in one piece
    let mut r;
    if pre > 0 {
        src.sched.mode = Mode::Step(pre);
        let boxed: Box<dyn std::io::Read> = Box::new(Switch { inner: src, first: true, step });
        r = DeferredReader::from_boxed_dyn_read(boxed);
        r.set_chunk_size(pre);
        r.request_more();
    } else if chunk == 1 && step == 100 {
        // an unused BufReader in front adds nothing: the reader takes the source out of it (its capacity must not become a read size)
        r = DeferredReader::from_buf_reader(std::io::BufReader::with_capacity(8, src));
    } else {
        r = DeferredReader::from_read(src);
    }
    r.set_chunk_size(chunk);
    (r, m)
}
struct Switch {
    inner: Src,
    first: bool,
    step: usize,
}
impl std::io::Read for Switch {
    fn read(&mut self, buf: &mut [u8]) -> std::io::Result<usize> {
        let r = self.inner.read(buf);
        if self.first {
            self.first = false;
            self.inner.sched.mode = Mode::Step(self.step);
        }
        r
    }
}

fn case_c16(s: &[u8], n: &[i64]) -> (String, String, Vec<String>) {
    let mut a = vec!["c16".to_string()];
    a.extend(n.iter().map(|x| x.to_string()));
    a.push(hex(s));
    ("C16 the scanner terminates".into(), format!("{} on {:?} at offset {} with {} bytes buffered", sc_name(SCANNERS[n[0] as usize]), show(s), n[1], n[2]), a)
}
fn case_c13(s: &[u8], n: &[i64]) -> (String, String, Vec<String>) {
    let mut a = vec!["c13".to_string()];
    a.extend(n.iter().map(|x| x.to_string()));
    a.push(hex(s));
    ("C13 the scanner terminates".into(), format!("{}::<{}> on {:?} at offset {} with {} bytes buffered", FN_NAMES[n[1] as usize], TYPES[n[0] as usize], show(s), n[2], n[3]), a)
}
// ---------------------------------------------------------------- C16
#[derive(Clone, Copy, Debug, PartialEq, Eq)]
pub enum Scanner {
    Blanks,
    Newline,
    NextNewline,
    Fixed(&'static [u8]),
}
/// (offset to return, number of leading bytes of the input that have to be known; len + 1 = the end has to be known)
fn reference(sc: Scanner, s: &[u8], offset: usize) -> (usize, usize) {
    let len = s.len();
    let at = |i: usize| s.get(i).copied();
    match sc {
        Scanner::Blanks => {
            let mut o = offset;
            while matches!(at(o), Some(b' ') | Some(b'\t')) {
                o += 1;
            }
            (o, if o < len { o + 1 } else { len + 1 })
        }
        Scanner::Newline => match at(offset) {
            Some(b'\n') => (offset + 1, offset + 1),
            Some(b'\r') => match at(offset + 1) {
                Some(b'\n') => (offset + 2, offset + 2),
                Some(_) => (offset, offset + 2),
                None => (offset, len + 1),
            },
            Some(_) => (offset, offset + 1),
            None => (offset, len + 1),
        },
        Scanner::NextNewline => {
            let mut o = offset;
            while o < len && s[o] != b'\n' {
                o += 1;
            }
            if o < len {
                (o + 1, o + 1)
            } else {
                // beyond the end there is nothing to pass over
                (o.max(offset), len + 1)
            }
        }
        Scanner::Fixed(p) => {
            for (j, &b) in p.iter().enumerate() {
                match at(offset + j) {
                    Some(x) if x == b => {}
                    Some(_) => return (offset, offset + j + 1),
                    None => return (offset, len + 1),
                }
            }
            (offset + p.len(), if p.is_empty() { 0 } else { offset + p.len() })
        }
    }
}
fn call(sc: Scanner, r: &mut DeferredReader, offset: usize) -> usize {
    match sc {
        Scanner::Blanks => text::tabs_or_spaces(r, offset),
        Scanner::Newline => text::newline(r, offset),
        Scanner::NextNewline => text::next_newline(r, offset),
        Scanner::Fixed(p) => text::fixed(r, offset, p),
    }
}
const SCANNERS: &[Scanner] = &[Scanner::Blanks, Scanner::Newline, Scanner::NextNewline, Scanner::Fixed(b""), Scanner::Fixed(b"a"), Scanner::Fixed(b"a\n"), Scanner::Fixed(b"aa a"), Scanner::Fixed(b"\r\n")];
fn sc_name(sc: Scanner) -> String {
    match sc {
        Scanner::Blanks => "tabs_or_spaces".into(),
        Scanner::Newline => "newline".into(),
        Scanner::NextNewline => "next_newline".into(),
        Scanner::Fixed(p) => format!("fixed({:?})", show(p)),
    }
}
fn check_c16(si: usize, s: &[u8], offset: usize, pre: usize, chunk: usize, step: usize) -> Option<(String, String)> {
    // a panic of the scanner (or of the reader underneath it) is a wrong answer, not the end of the suite
    match std::panic::catch_unwind(std::panic::AssertUnwindSafe(|| check_c16_inner(si, s, offset, pre, chunk, step))) {
        Ok(r) => r,
        Err(p) => Some(("C16 the scanner returns instead of panicking".into(), format!("panic: {}", panic_msg(p)))),
    }
}
fn check_c16_inner(si: usize, s: &[u8], offset: usize, pre: usize, chunk: usize, step: usize) -> Option<(String, String)> {
    set_case_raw(case_c16, s, &[si as i64, offset as i64, pre as i64, chunk as i64, step as i64]);
    let sc = SCANNERS[si];
    // pre == len + 1: everything buffered AND the end of the input already seen by an earlier look-ahead
    let (mut r, m) = reader_with(s, pre.min(s.len()), chunk, step);
    if pre > s.len() {
        let _ = r.request_byte_at_offset(s.len());
    }
    let d0 = m.delivered.get();
    let ended0 = m.ended.get();
    let got = call(sc, &mut r, offset);
    let (want, needed) = reference(sc, s, offset);
    if got != want {
        return Some(("C16 the scanner passes over exactly the documented pattern".into(), format!("{} at offset {} of {:?} ({} bytes buffered): returned {}, expected {}", sc_name(sc), offset, show(s), d0, got, want)));
    }
    if r.position() != 0 {
        return Some(("C16 the scanner consumes nothing itself".into(), format!("{} at offset {} of {:?}: position {} afterwards", sc_name(sc), offset, show(s), r.position())));
    }
    let b = r.buf().to_vec();
    if b.len() > s.len() || b[..] != s[..b.len()] {
        return Some(("C16 the scanner consumes nothing itself".into(), format!("{} at offset {} of {:?}: buffered data afterwards {:?}", sc_name(sc), offset, show(s), show(&b))));
    }
    if chunk == 1 {
        // one byte per read (chunk size 1, whatever the source would hand out): the bytes delivered are exactly the ones needed to decide (or the ones that were there before)
        let allowed = d0.max(needed.min(s.len()));
        if m.delivered.get() > allowed {
            return Some((
                "C16 the scanner requests no more input than is needed to decide".into(),
                format!("{} at offset {} of {:?} with {} bytes buffered: {} bytes delivered afterwards, {} are enough", sc_name(sc), offset, show(s), d0, m.delivered.get(), allowed),
            ));
        }
        if m.ended.get() && !ended0 && needed <= s.len() {
            return Some((
                "C16 the scanner requests no more input than is needed to decide".into(),
                format!("{} at offset {} of {:?} with {} bytes buffered: read on to the end of the input although byte {} decides", sc_name(sc), offset, show(s), d0, needed - 1),
            ));
        }
    }
    None
}

/// the scanner after a history: `lead` bytes requested (plus `extra` look-ahead) and advanced over, `interrupt` = every n-th read is interrupted
fn case_c16h(s: &[u8], n: &[i64]) -> (String, String, Vec<String>) {
    let mut a = vec!["c16h".to_string()];
    a.extend(n.iter().map(|x| x.to_string()));
    a.push(hex(s));
    ("C16 the scanner terminates".into(), format!("{} on {:?} at offset {} after {} consumed bytes", sc_name(SCANNERS[n[0] as usize]), show(s), n[1], n[2]), a)
}
fn check_c16h(si: usize, s: &[u8], offset: usize, lead: usize, extra: usize, chunk: usize, step: usize, interrupt: usize) -> Option<(String, String)> {
    // a panic of the scanner (or of the reader underneath it) is a wrong answer, not the end of the suite
    match std::panic::catch_unwind(std::panic::AssertUnwindSafe(|| check_c16h_inner(si, s, offset, lead, extra, chunk, step, interrupt))) {
        Ok(r) => r,
        Err(p) => Some(("C16 the scanner returns instead of panicking".into(), format!("panic: {}", panic_msg(p)))),
    }
}
fn check_c16h_inner(si: usize, s: &[u8], offset: usize, lead: usize, extra: usize, chunk: usize, step: usize, interrupt: usize) -> Option<(String, String)> {
    set_case_raw(case_c16h, s, &[si as i64, offset as i64, lead as i64, extra as i64, chunk as i64, step as i64, interrupt as i64]);
    let sc = SCANNERS[si];
    let mut data: Vec<u8> = (0..lead).map(|i| b"xyzw"[i % 4]).collect();
    data.extend_from_slice(s);
    let (src, m) = Src::new(&data, Sched { chunk, mode: Mode::Step(step), fail_at: None, interrupt });
    let mut r = DeferredReader::from_read(src);
    r.set_chunk_size(chunk);
    if lead > 0 {
        let got = r.request(lead + extra).len();
        if got < lead {
            return Some(("C16 the scanner passes over exactly the documented pattern".into(), format!("request({}) on {} bytes exposed only {}", lead + extra, data.len(), got)));
        }
        r.advance(lead);
    }
    let got = call(sc, &mut r, offset);
    let (want, _) = reference(sc, s, offset);
    let hist = format!("after request({}), advance({}) with chunk size {}, {} bytes per read, every {}-th read interrupted (0 = none)", lead + extra, lead, chunk, step, interrupt);
    if got != want {
        return Some(("C16 the scanner passes over exactly the documented pattern".into(), format!("{} at offset {} of {:?} {}: returned {}, expected {}", sc_name(sc), offset, show(s), hist, got, want)));
    }
    if r.position() != lead {
        return Some(("C16 the scanner consumes nothing itself".into(), format!("{} at offset {} of {:?} {}: position {} afterwards, expected {}", sc_name(sc), offset, show(s), hist, r.position(), lead)));
    }
    let b = r.buf().to_vec();
    if b.len() > s.len() || b[..] != s[..b.len()] {
        return Some(("C16 the scanner consumes nothing itself".into(), format!("{} at offset {} of {:?} {}: buffered data afterwards {:?}", sc_name(sc), offset, show(s), hist, show(&b))));
    }
    if m.calls_after_end.get() > 0 {
        return Some(("C16 the scanner requests no more input than is needed to decide".into(), format!("{} at offset {} of {:?} {}: the source was called again after it reported the end", sc_name(sc), offset, show(s), hist)));
    }
    None
}

// ---------------------------------------------------------------- C13
/// (offset to return, value or None for "not representable") from the text alone; the value goes through the standard library's parser
macro_rules! reference_int {
    ($t:ty, $s:expr, $offset:expr, $signed:expr) => {{
        let s: &[u8] = $s;
        let mut o = $offset;
        let neg = $signed && s.get(o) == Some(&b'-');
        let start = if neg { o + 1 } else { o };
        let mut e = start;
        while e < s.len() && s[e].is_ascii_digit() {
            e += 1;
        }
        if e == start {
            // no digits: nothing is passed over (a lone minus is not consumed), the value of the empty run is zero
            (o, Some(0 as $t).map(|v| v.to_string()))
        } else {
            o = e;
            let digits = std::str::from_utf8(&s[start..e]).unwrap().trim_start_matches('0');
            let digits = if digits.is_empty() { "0" } else { digits };
            let text = if neg && digits != "0" { format!("-{}", digits) } else { digits.to_string() };
            (o, text.parse::<$t>().ok().map(|v| v.to_string()))
        }
    }};
}
macro_rules! scan_one {
    ($t:ty, $which:expr, $r:expr, $offset:expr) => {{
        let (v, o): (Option<$t>, usize) = match $which {
            0 => text::ascii_digits::<$t>($r, $offset),
            1 => text::ascii_digits_multi::<$t>($r, $offset),
            2 => text::signed_ascii_digits::<$t>($r, $offset),
            _ => text::signed_ascii_digits_multi::<$t>($r, $offset),
        };
        (o, v.map(|x| x.to_string()))
    }};
}
const FN_NAMES: [&str; 4] = ["ascii_digits", "ascii_digits_multi", "signed_ascii_digits", "signed_ascii_digits_multi"];
const TYPES: [&str; 12] = ["i8", "u8", "i16", "u16", "i32", "u32", "i64", "u64", "i128", "u128", "isize", "usize"];
fn check_c13(ty: usize, which: usize, s: &[u8], offset: usize, pre: usize, chunk: usize, step: usize) -> Option<(String, String)> {
    // a panic of the scanner (or of the reader underneath it) is a wrong answer, not the end of the suite
    match std::panic::catch_unwind(std::panic::AssertUnwindSafe(|| check_c13_inner(ty, which, s, offset, pre, chunk, step))) {
        Ok(r) => r,
        Err(p) => Some(("C13 the scanner returns instead of panicking".into(), format!("panic: {}", panic_msg(p)))),
    }
}
fn check_c13_inner(ty: usize, which: usize, s: &[u8], offset: usize, pre: usize, chunk: usize, step: usize) -> Option<(String, String)> {
    set_case_raw(case_c13, s, &[ty as i64, which as i64, offset as i64, pre as i64, chunk as i64, step as i64]);
    let (mut r, m) = reader_with(s, pre, chunk, step);
    let d0 = m.delivered.get();
    macro_rules! go {
        ($t:ty) => {{
            let got = scan_one!($t, which, &mut r, offset);
            let want = reference_int!($t, s, offset, which >= 2);
            (got, want)
        }};
    }
    let (got, want) = match ty {
        0 => go!(i8),
        1 => go!(u8),
        2 => go!(i16),
        3 => go!(u16),
        4 => go!(i32),
        5 => go!(u32),
        6 => go!(i64),
        7 => go!(u64),
        8 => go!(i128),
        9 => go!(u128),
        10 => go!(isize),
        _ => go!(usize),
    };
    if got != want {
        return Some((
            "C13 decimal scanning returns the exact value (or overflow) and the offset past the digits".into(),
            format!("{}::<{}> at offset {} of {:?} with {} bytes buffered: returned (offset {}, value {:?}), expected (offset {}, value {:?})", FN_NAMES[which], TYPES[ty], offset, show(s), d0, got.0, got.1, want.0, want.1),
        ));
    }
    if r.position() != 0 {
        return Some(("C13 scanning consumes nothing".into(), format!("{}::<{}>: position {} afterwards", FN_NAMES[which], TYPES[ty], r.position())));
    }
    None
}
fn boundary_strings(thorough: bool) -> Vec<Vec<u8>> {
    let mut v: Vec<String> = vec![];
    let centers: [i128; 12] = [i8::MIN as i128, i8::MAX as i128, u8::MAX as i128, i16::MIN as i128, i16::MAX as i128, u16::MAX as i128, i32::MIN as i128, i32::MAX as i128, u32::MAX as i128, i64::MIN as i128, i64::MAX as i128, u64::MAX as i128];
    for c in centers {
        for d in -11..=11i128 {
            v.push((c + d).to_string());
        }
        v.push((c * 10).to_string());
        v.push((c * 10 + 9).to_string());
    }
    for t in ["170141183460469231731687303715884105727", "170141183460469231731687303715884105728", "-170141183460469231731687303715884105728", "-170141183460469231731687303715884105729", "340282366920938463463374607431768211455", "340282366920938463463374607431768211456", "340282366920938463463374607431768211465", "3402823669209384634633746074317682114550", "99999999999999999999999999999999999999999", "-99999999999999999999999999999999999999999", "0", "-0", "-", "--1", "-00", "00", "7", "12345678", "123456789", "1234567", "-1234567", "-12345678", "-123456789", "00000000", "000000000", "-00000000", "-00000001", "-0000000", "1234567x9", "12345678x", "-1234567x", "-", "-x", "-       ", "-        "] {
        v.push(t.to_string());
    }
    let mut out = vec![];
    for t in v {
        let (sign, digits) = if let Some(r) = t.strip_prefix('-') { ("-", r.to_string()) } else { ("", t.clone()) };
        for &pad in (if thorough { &[0usize, 1, 7, 8, 20][..] } else { &[0usize, 8][..] }) {
            for suffix in ["", " ", "x", "0x", "       \n"] {
                out.push(format!("{}{}{}{}", sign, "0".repeat(pad), digits, suffix).into_bytes());
            }
            // bytes next to the digit range and non-ASCII bytes end the run as well
            for suffix in [&b"/1"[..], b":1", b"\x80", b"\xb0\xb1", b"\xff\xff\xff\xff\xff\xff\xff\xff", b"\xc3\xa9 ", b"\x00", b"\x10"] {
                let mut v = format!("{}{}{}", sign, "0".repeat(pad), digits).into_bytes();
                v.extend_from_slice(suffix);
                out.push(v);
            }
        }
    }
    out.sort();
    out.dedup();
    out
}

pub fn suite(prop: &str, tier: &str, _seed: u64) -> Report {
    let mut rep = Report::new();
    let all = prop == "all";
    start_watchdog(20);
    let mut fail = |rep: &mut Report, kind: &str, a: Vec<String>, s: &[u8], r: Option<(String, String)>| {
        if let Some((check, detail)) = r {
            let mut args = vec![kind.to_string()];
            args.extend(a);
            args.push(hex(s));
            rep.fail(&check, show(s), args, detail);
        }
    };
    if all || prop == "C16" {
        // every string of up to n bytes over {space, tab, CR, LF, a}
        let alpha = [b' ', b'\t', b'\r', b'\n', b'a'];
        let n = if tier == "thorough" { 6 } else { 5 };
        let mut strings: Vec<Vec<u8>> = vec![vec![]];
        let mut level: Vec<Vec<u8>> = vec![vec![]];
        for _ in 0..n {
            let mut next = vec![];
            for s in &level {
                for &c in &alpha {
                    let mut t = s.clone();
                    t.push(c);
                    next.push(t);
                }
            }
            strings.extend(next.iter().cloned());
            level = next;
        }
        for s in &strings {
            rep.inputs += 1;
            rep.nontrivial += 1;
            for si in 0..SCANNERS.len() {
                for offset in 0..=s.len() + 1 {
                    for pre in 0..=s.len() + 1 {
                        for &(chunk, step) in &[(1usize, 1usize), (3, 2), (16, 100), (1, 100)] {
                            rep.runs += 1;
                            let r = check_c16(si, s, offset, pre, chunk, step);
                            fail(&mut rep, "c16", vec![si.to_string(), offset.to_string(), pre.to_string(), chunk.to_string(), step.to_string()], s, r);
                        }
                    }
                }
            }
        }
        // bytes that collide with a blank or a line end when a bit is dropped (0x09/0x20/0x0a/0x0d +- 0x40, 0x80): every string of up to 3
        {
            let alpha2 = [b' ', b'\t', b'\r', b'\n', 0x60u8, 0x49, 0xa0, 0x89, 0x4a, 0x8a, 0x4d, 0x8d, 0x00, 0x0b, 0x0c, 0x1f, 0x21];
            let mut level: Vec<Vec<u8>> = vec![vec![]];
            for _ in 0..3 {
                let mut next = vec![];
                for s in &level {
                    for &c in &alpha2 {
                        let mut t = s.clone();
                        t.push(c);
                        next.push(t);
                    }
                }
                for s in &next {
                    rep.inputs += 1;
                    for si in 0..SCANNERS.len() {
                        for offset in 0..=s.len() {
                            for &(pre, chunk, step) in &[(0usize, 1usize, 1usize), (s.len(), 16, 100)] {
                                rep.runs += 1;
                                let r = check_c16(si, s, offset, pre, chunk, step);
                                fail(&mut rep, "c16", vec![si.to_string(), offset.to_string(), pre.to_string(), chunk.to_string(), step.to_string()], s, r);
                            }
                        }
                    }
                }
                level = next;
            }
        }
        // longer lines with multi-byte characters and invalid bytes (8-byte-at-a-time fast paths see them only with enough data buffered)
        for s in [&b"ab \xc3\xa9\xc3\xba\xc3\xb1 cdefgh\nxyz"[..], b"\xe2\x80\x94\xe2\x80\x94 \t\xf0\x9f\x98\x80 tail\r\nx", b"        \xa0\x8a\x8d\xff\x80 0123456789\n", b"\xc3\xa9\n\xc3\xa9\r\n\xc3\xa9\xc3\xa9\xc3\xa9\xc3\xa9\xc3\xa9\xc3\xa9\xc3\xa9"] {
            rep.inputs += 1;
            for si in 0..SCANNERS.len() {
                for offset in 0..=s.len() + 2 {
                    for pre in [0usize, 8, 9, 16, s.len(), s.len() + 1] {
                        for &(chunk, step) in &[(1usize, 1usize), (16, 100)] {
                            rep.runs += 1;
                            let r = check_c16(si, s, offset, pre, chunk, step);
                            fail(&mut rep, "c16", vec![si.to_string(), offset.to_string(), pre.to_string(), chunk.to_string(), step.to_string()], s, r);
                        }
                    }
                }
            }
        }
        // the same scanners after a history of requests and advances (realigned buffers) and with interrupted reads
        let hn = if tier == "thorough" { 5 } else { 4 };
        for s in strings.iter().filter(|s| s.len() <= hn) {
            for si in 0..SCANNERS.len() {
                for offset in 0..=s.len() + 1 {
                    for &(lead, extra, chunk, step, interrupt) in &[(0usize, 0usize, 1usize, 1usize, 2usize), (0, 0, 3, 2, 3), (5, 2, 2, 1, 0), (7, 0, 2, 1, 0), (7, 3, 2, 3, 0), (9, 1, 1, 1, 2), (13, 0, 4, 2, 0), (13, 2, 4, 100, 3)] {
                        rep.runs += 1;
                        let r = check_c16h(si, s, offset, lead, extra, chunk, step, interrupt);
                        fail(&mut rep, "c16h", vec![si.to_string(), offset.to_string(), lead.to_string(), extra.to_string(), chunk.to_string(), step.to_string(), interrupt.to_string()], s, r);
                    }
                }
            }
        }
    }
    if all || prop == "C13" {
        // (a) every string of up to n bytes over a digit-heavy alphabet, narrow types (all boundaries are reachable)
        let alpha = [b'0', b'1', b'2', b'5', b'7', b'8', b'9', b'-', b'x', 0xb5];
        let n = if tier == "thorough" { 5 } else { 4 };
        let mut level: Vec<Vec<u8>> = vec![vec![]];
        let mut strings: Vec<Vec<u8>> = vec![vec![]];
        for _ in 0..n {
            let mut next = vec![];
            for s in &level {
                for &c in &alpha {
                    let mut t = s.clone();
                    t.push(c);
                    next.push(t);
                }
            }
            strings.extend(next.iter().cloned());
            level = next;
        }
        for s in &strings {
            rep.inputs += 1;
            rep.nontrivial += 1;
            // padded so that the 8-byte fast paths are taken as well
            let mut padded = s.clone();
            padded.extend_from_slice(b"        ");
            for ty in 0..4 {
                for which in 0..4 {
                    for offset in 0..=1usize.min(s.len()) {
                        for (t, pre) in [(s, 0usize), (s, s.len()), (&padded, padded.len()), (&padded, offset + 8)] {
                            rep.runs += 1;
                            let r = check_c13(ty, which, t, offset, pre, 4, 3);
                            fail(&mut rep, "c13", vec![ty.to_string(), which.to_string(), offset.to_string(), pre.to_string(), "4".into(), "3".into()], t, r);
                        }
                    }
                }
            }
        }
        // (b) boundary values of every type, padded, prefixed, with every relevant amount of buffered data
        for b in boundary_strings(tier == "thorough") {
            let prefixes: Vec<&[u8]> = if tier == "thorough" { vec![b"", b"x", b"xyz"] } else { vec![b"", b"x"] };
            for prefix in prefixes {
                let mut s = prefix.to_vec();
                s.extend_from_slice(&b);
                let offset = prefix.len();
                rep.inputs += 1;
                rep.nontrivial += 1;
                let mut pres = vec![0, 1, 7, 8, 9, offset + 7, offset + 8, offset + 9, offset + 16, s.len()];
                pres.retain(|&p| p <= s.len());
                pres.dedup();
                for ty in 0..12 {
                    for which in 0..4 {
                        for &pre in &pres {
                            for &(chunk, step) in &[(1usize, 1usize), (16, 100)] {
                                rep.runs += 1;
                                let r = check_c13(ty, which, &s, offset, pre, chunk, step);
                                fail(&mut rep, "c13", vec![ty.to_string(), which.to_string(), offset.to_string(), pre.to_string(), chunk.to_string(), step.to_string()], &s, r);
                            }
                        }
                    }
                }
            }
        }
    }
    rep.bound = "scan: C16: every string of up to 5 (thorough: 6) bytes over {space, tab, CR, LF, a} x 8 scanners (tabs_or_spaces, newline, next_newline, fixed with 5 patterns) x every offset 0..len+1 x every amount of pre-buffered data x 3 refill schedules, delivered bytes counted with one byte per read; every string of up to 3 bytes over 17 bytes that alias a blank or a line end when a bit is dropped; 4 lines of 20-30 bytes with multi-byte and invalid bytes at 6 amounts of buffered data; with chunk size 1 and a source offering 100 bytes the reader is built from an unused BufReader of capacity 8; the strings of up to 4 (thorough: 5) bytes again after 8 histories (0..13 bytes requested and advanced over with chunk sizes 1..4 so that the buffer has been realigned, 0..3 bytes of extra look-ahead, every 2nd or 3rd read interrupted); C13: every string of up to 4 (thorough: 5) bytes over {0,1,2,5,7,8,9,-,x,0xb5} for i8/u8/i16/u16 and the values within 11 of every MIN/MAX of the 12 integer types (plus x10, 128-bit limits, lone and double minus), zero padded by 0/1/7/8/20, with 5 suffixes and 3 prefixes, for all four scanners, 12 types, up to 10 amounts of buffered data around the 8-byte fast-path threshold; the reference value comes from the standard library's integer parser".to_string();
    rep
}
pub fn replay(_prop: &str, args: &[String]) -> i32 {
    let s = unhex(&args[args.len() - 1]);
    let v: Vec<usize> = args[1..args.len() - 1].iter().map(|x| x.parse().unwrap()).collect();
    let r = if args[0] == "c16" { check_c16(v[0], &s, v[1], v[2], v[3], v[4]) } else if args[0] == "c16h" { check_c16h(v[0], &s, v[1], v[2], v[3], v[4], v[5], v[6]) } else { check_c13(v[0], v[1], &s, v[2], v[3], v[4], v[5]) };
    match r {
        Some((c, d)) => {
            println!("FAILS {}: {}", c, d);
            1
        }
        None => 0,
    }
}
