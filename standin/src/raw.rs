//! The raw-pointer paths of the safe API (C14), meant to be run under valgrind memcheck: the 8-byte loads of the multi-digit
//! scanners with every amount of buffered data in a buffer that is exactly as long as the data, the integer writer at every
//! fill level near the end of its buffer, and the reader after caught panics. Natively it only checks results.
use std::panic::{catch_unwind, AssertUnwindSafe};

use flussab::text;
use flussab::{DeferredReader, DeferredWriter};

use crate::common::*;

pub fn suite(_prop: &str, _tier: &str, _seed: u64) -> Report {
    let mut rep = Report::new();
    let r = catch_unwind(AssertUnwindSafe(|| parts(&mut rep)));
    if let Err(p) = r {
        rep.fail("C14 safe calls leave the reader and writer consistent", "raw suite".into(), vec![], format!("panic outside the documented ones: {}", panic_msg(p)));
    }
    rep
}
fn parts(rep: &mut Report) {
    // (1) scanners: the reader's buffer holds exactly `pre` bytes and is exactly `pre` bytes long
    let texts: [&[u8]; 6] = [b"123456789012345678901234567890", b"-12345678 9", b"{123456789} 1 0", b"x-00000001x", b"12", b"        1"];
    for t in texts {
        for pre in 1..=t.len() {
            for offset in 0..=pre.min(12) {
                for which in 0..2 {
                    let (src, _m) = Src::new(t, Sched { chunk: pre, mode: Mode::Step(pre), fail_at: None, interrupt: 0 });
                    let mut r = DeferredReader::from_read(src);
                    r.set_chunk_size(pre);
                    r.request_more();
                    // later refills are small, so the buffer never has slack beyond the data
                    r.set_chunk_size(1);
                    set_case("C14 no access outside the buffered data", &format!("scanner {} on {:?}, {} bytes buffered, offset {}", which, show(t), pre, offset), &[]);
                    let (v, o): (Option<u64>, usize) = if which == 0 { text::ascii_digits_multi(&mut r, offset) } else { text::signed_ascii_digits_multi::<i64>(&mut r, offset).map_first() };
                    rep.runs += 1;
                    let b = r.buf().to_vec();
                    if b.len() > t.len() || b[..] != t[..b.len()] || o > t.len() {
                        rep.fail("C14 the exposed slice has the buffered length and content", show(t), vec![], format!("after the scan: buffer {:?}, offset {}, value {:?}", show(&b), o, v));
                    }
                }
            }
        }
    }
    // (2) integer writer at every fill level near the end of the buffer, every type's longest values
    for fill in 16384 - 45..=16384usize {
        let mut out = vec![];
        {
            let mut w = DeferredWriter::from_write(&mut out);
            w.write_all_defer_err(&vec![b'.'; fill]);
            flussab::write::text::ascii_digits(&mut w, u64::MAX);
            flussab::write::text::ascii_digits(&mut w, i64::MIN);
            flussab::write::text::ascii_digits(&mut w, u128::MAX);
            flussab::write::text::ascii_digits(&mut w, i128::MIN);
            flussab::write::text::ascii_digits(&mut w, u8::MAX);
            flussab::write::text::ascii_digits(&mut w, i8::MIN);
            flussab::write::text::ascii_digits(&mut w, u16::MAX);
            flussab::write::text::ascii_digits(&mut w, i16::MIN);
            flussab::write::text::ascii_digits(&mut w, u32::MAX);
            flussab::write::text::ascii_digits(&mut w, i32::MIN);
            flussab::write::text::ascii_digits(&mut w, usize::MAX);
            flussab::write::text::ascii_digits(&mut w, isize::MIN);
            let p = w.buf_write_ptr(3);
            if !p.is_null() {
                unsafe {
                    std::ptr::copy_nonoverlapping(b"abc".as_ptr(), p, 3);
                    w.advance_unchecked(3);
                }
            }
        }
        rep.runs += 1;
        let want = format!("{}{}{}{}{}{}{}{}{}{}{}{}", u64::MAX, i64::MIN, u128::MAX, i128::MIN, u8::MAX, i8::MIN, u16::MAX, i16::MIN, u32::MAX, i32::MIN, usize::MAX, isize::MIN);
        if out.len() < fill + want.len() || &out[fill..fill + want.len()] != want.as_bytes() {
            rep.fail("C14 the writer writes inside its buffer", format!("fill level {}", fill), vec![], "the sink did not receive the integers".into());
        }
    }
    // (3) reader operations around caught panics
    for chunk in [1usize, 3, 8] {
        for pre in [0usize, 1, 5] {
            let data: Vec<u8> = (0..40u8).collect();
            let (src, _m) = Src::new(&data, Sched { chunk, mode: Mode::Step(chunk), fail_at: None, interrupt: 0 });
            let mut r = DeferredReader::from_read(src);
            r.set_chunk_size(chunk);
            r.request(pre);
            let mut pos = 0;
            for step in 0..12 {
                let n = r.buf_len() + 1 + step;
                let _ = catch_unwind(AssertUnwindSafe(|| r.advance(n)));
                let _ = catch_unwind(AssertUnwindSafe(|| {
                    let _ = r.advance_with_buf(n);
                }));
                let b = r.buf().to_vec();
                rep.runs += 1;
                if r.position() != pos || b[..] != data[pos..pos + b.len()] {
                    rep.fail("C14 the exposed slice has the buffered length and content", format!("chunk {} after caught panics", chunk), vec![], format!("position {} buffer {:?}", r.position(), b));
                }
                let k = r.request(3).len().min(2);
                r.advance(k);
                pos += k;
            }
        }
    }
    rep.inputs = rep.runs;
    rep.nontrivial = rep.runs;
    rep.bound = "raw (under valgrind memcheck): multi-digit scanners on 6 texts x every amount of buffered data (buffer exactly that long) x offsets 0..12; integer writer with the longest values of all 12 types and a direct write at the last 46 fill levels; reader advance/advance_with_buf beyond the data (caught) interleaved with requests, 9 configurations".to_string();
}
trait MapFirst {
    fn map_first(self) -> (Option<u64>, usize);
}
impl MapFirst for (Option<i64>, usize) {
    fn map_first(self) -> (Option<u64>, usize) {
        (self.0.map(|v| v as u64), self.1)
    }
}
