//! DIMACS family (cnf / wcnf / gcnf) on structured documents: the token sequence is known, so the expected value is
//! computed independently of the parser (C06 exact numbers and limits), every permitted layout of the same tokens must parse
//! to the same value (C07), and a single corrupted token must be reported at its own position (C08).
use crate::common::*;
use crate::fmt::{run, End, Fmt, FORMATS};

#[derive(Clone, Debug)]
pub struct Clause {
    /// weight (wcnf) or group (gcnf), as written
    pub prefix: Option<String>,
    pub lits: Vec<String>,
}
#[derive(Clone, Debug)]
pub struct Doc {
    pub kind: &'static str,
    /// the numbers of the `p` line, as written
    pub header: Option<Vec<String>>,
    pub clauses: Vec<Clause>,
}
fn big(s: &str) -> i128 {
    // decimal text of up to 38 digits with optional sign; longer ones saturate (they are out of every range anyway)
    let (neg, d) = if let Some(r) = s.strip_prefix('-') { (true, r) } else { (false, s) };
    let mut v: i128 = 0;
    for c in d.bytes() {
        v = v.saturating_mul(10).saturating_add((c - b'0') as i128);
    }
    if neg {
        -v
    } else {
        v
    }
}
/// suite dimacs:wcnf16: the WCNF parser with 16-bit literals (a header may then declare more variables than the literal type holds)
pub static NARROW: std::sync::atomic::AtomicBool = std::sync::atomic::AtomicBool::new(false);
fn narrow() -> bool {
    NARROW.load(std::sync::atomic::Ordering::Relaxed)
}
fn lit_max(kind: &str) -> i128 {
    match kind {
        "cnf" => i32::MAX as i128,
        "wcnf" if narrow() => i16::MAX as i128,
        "wcnf" => isize::MAX as i128,
        _ => i16::MAX as i128,
    }
}
/// the clause items the parser has to hand out (in the Debug form fmt.rs uses), or None when the document breaks a limit
pub fn expected(d: &Doc) -> Option<Vec<String>> {
    let mut var_count = 0i128;
    let mut clause_count = 0i128;
    let mut group_count = 0i128;
    if let Some(h) = &d.header {
        for x in h.iter() {
            if big(x) < 0 || big(x) > usize::MAX as i128 {
                return None;
            }
        }
        var_count = big(&h[0]);
        clause_count = big(&h[1]);
        // a variable count beyond the literal type cannot be honoured and is refused ("exceeds the supported variable count")
        if var_count > lit_max(d.kind) {
            return None;
        }
        if d.kind == "wcnf" {
            if big(&h[2]) > u64::MAX as i128 {
                return None;
            }
        }
        if d.kind == "gcnf" {
            group_count = big(&h[2]);
        }
    }
    let mut out = vec![];
    for c in &d.clauses {
        let mut lits = vec![];
        for l in &c.lits {
            let v = big(l);
            if v == 0 || v.abs() > lit_max(d.kind) || (var_count > 0 && v.abs() > var_count) {
                return None;
            }
            lits.push(v.to_string());
        }
        let body = format!("[{}]", lits.join(", "));
        match d.kind {
            "cnf" => out.push(body),
            "wcnf" => {
                let w = big(c.prefix.as_ref().unwrap());
                if w < 0 || w > u64::MAX as i128 {
                    return None;
                }
                out.push(format!("({}, {})", w, body));
            }
            _ => {
                let g = big(c.prefix.as_ref().unwrap());
                if g < 0 || g > usize::MAX as i128 || (group_count > 0 && g > group_count) {
                    return None;
                }
                out.push(format!("({}, {})", g, body));
            }
        }
    }
    if clause_count > 0 && clause_count != d.clauses.len() as i128 {
        return None;
    }
    Some(out)
}

/// layout choices; `canonical()` is what the writers produce
#[derive(Clone, Debug)]
pub struct Layout {
    pub sep: &'static str,
    pub trail: &'static str,
    pub eol: &'static str,
    pub final_eol: bool,
    pub zero: &'static str,
    pub leading_zeros: usize,
    /// lines inserted before the header, between clauses and at line breaks inside clauses
    pub filler: Vec<&'static str>,
    /// break the line after every n-th token of a clause (0 = never)
    pub split: usize,
    pub indent: &'static str,
}
pub fn canonical() -> Layout {
    Layout { sep: " ", trail: "", eol: "\n", final_eol: true, zero: "0", leading_zeros: 0, filler: vec![], split: 0, indent: "" }
}
pub struct Rendered {
    pub bytes: Vec<u8>,
    /// (line, first column, last column) of every number token, in document order (header numbers first)
    pub tokens: Vec<(usize, usize, usize)>,
}
struct Out {
    bytes: Vec<u8>,
    line: usize,
    col: usize,
}
impl Out {
    fn push(&mut self, s: &str) {
        for &b in s.as_bytes() {
            self.bytes.push(b);
            if b == b'\n' {
                self.line += 1;
                self.col = 1;
            } else {
                self.col += 1;
            }
        }
    }
}
pub fn render(d: &Doc, l: &Layout, corrupt: Option<(usize, &str)>) -> Rendered {
    let mut o = Out { bytes: vec![], line: 1, col: 1 };
    let mut toks: Vec<(usize, usize, usize)> = vec![];
    let zeros = "0".repeat(l.leading_zeros);
    fn number(o: &mut Out, toks: &mut Vec<(usize, usize, usize)>, zeros: &str, corrupt: Option<(usize, &str)>, s: &str, braces: bool) {
        let mut text = if let Some(r) = s.strip_prefix('-') { format!("-{}{}", zeros, r) } else { format!("{}{}", zeros, s) };
        if let Some((k, c)) = corrupt {
            if k == toks.len() {
                text = c.to_string();
            }
        }
        if braces {
            text = format!("{{{}}}", text);
        }
        toks.push((o.line, o.col, o.col + text.len() - 1));
        o.push(&text);
    }
    fn filler(o: &mut Out, l: &Layout) {
        for f in &l.filler {
            o.push(f);
            o.push(l.eol);
        }
    }
    filler(&mut o, l);
    if let Some(h) = &d.header {
        o.push("p");
        o.push(l.sep);
        o.push(d.kind);
        for x in h {
            o.push(l.sep);
            number(&mut o, &mut toks, &zeros, corrupt, x, false);
        }
        o.push(l.trail);
        o.push(l.eol);
        filler(&mut o, l);
    }
    let n = d.clauses.len();
    for (ci, c) in d.clauses.iter().enumerate() {
        let mut k = 0usize;
        // separator in front of the k-th token of the clause (k > 0)
        fn between(o: &mut Out, l: &Layout, k: usize) {
            if k == 0 {
                return;
            }
            if l.split > 0 && k % l.split == 0 {
                o.push(l.trail);
                o.push(l.eol);
                filler(o, l);
                o.push(l.indent);
            } else {
                o.push(l.sep);
            }
        }
        if let Some(p) = &c.prefix {
            between(&mut o, l, k);
            number(&mut o, &mut toks, &zeros, corrupt, p, d.kind == "gcnf");
            k += 1;
        }
        for x in &c.lits {
            between(&mut o, l, k);
            number(&mut o, &mut toks, &zeros, corrupt, x, false);
            k += 1;
        }
        between(&mut o, l, k);
        o.push(l.zero);
        o.push(l.trail);
        if ci + 1 < n || l.final_eol {
            o.push(l.eol);
        }
        if ci + 1 < n {
            filler(&mut o, l);
        }
    }
    if l.final_eol {
        filler(&mut o, l);
    }
    Rendered { bytes: o.bytes, tokens: toks }
}

fn s(x: &str) -> String {
    x.to_string()
}
fn cl(prefix: Option<&str>, lits: &[&str]) -> Clause {
    Clause { prefix: prefix.map(s), lits: lits.iter().map(|x| s(x)).collect() }
}
pub fn base_docs(kind: &'static str) -> Vec<Doc> {
    let p = |a: &'static str, b: &'static str| -> Option<&'static str> { Some(if kind == "wcnf" { a } else { b }) };
    let pre = |a: &'static str, b: &'static str| if kind == "cnf" { None } else { p(a, b) };
    let h = |v: &str, c: &str| -> Option<Vec<String>> {
        Some(match kind {
            "cnf" => vec![s(v), s(c)],
            "wcnf" => vec![s(v), s(c), s("100")],
            _ => vec![s(v), s(c), s("4")],
        })
    };
    // third header field zero (top weight / group count unspecified)
    let h0 = |v: &str, c: &str| -> Option<Vec<String>> {
        Some(match kind {
            "cnf" => vec![s(v), s(c)],
            _ => vec![s(v), s(c), s("0")],
        })
    };
    vec![
        Doc { kind, header: h("5", "3"), clauses: vec![cl(pre("100", "1"), &["1", "-2", "3"]), cl(pre("7", "4"), &["-5"]), cl(pre("1", "0"), &["4", "-1", "2", "5"])] },
        Doc { kind, header: None, clauses: vec![cl(pre("3", "2"), &["12", "-34"]), cl(pre("9", "1"), &["56", "-7", "8"])] },
        Doc { kind, header: h("0", "0"), clauses: vec![cl(pre("1", "9"), &["1999", "-2000"])] },
        Doc { kind, header: h("3", "2"), clauses: vec![cl(pre("5", "2"), &[]), cl(pre("6", "3"), &["3"])] },
        // a count of zero means unspecified, each on its own
        Doc { kind, header: h("0", "2"), clauses: vec![cl(pre("5", "3"), &["77", "-78"]), cl(pre("6", "4"), &["3"])] },
        Doc { kind, header: h("9", "0"), clauses: vec![cl(pre("5", "1"), &["9", "-8"]), cl(pre("6", "2"), &["3"]), cl(pre("1", "4"), &["-1"])] },
        Doc { kind, header: h0("4", "1"), clauses: vec![cl(pre("5", "7"), &["4", "-1"])] },
    ]
}
const NUMBERS: &[&str] = &[
    "0", "1", "5", "6", "127", "128", "32767", "32768", "65536", "2147483647", "2147483648", "4294967296", "4294967297", "9223372036854775807", "9223372036854775808", "18446744073709551615",
    "18446744073709551616", "18446744073709551617", "9999999999999999999", "99999999999999999999", "36893488147419103233", "-5", "-6", "-32767", "-32768", "-32769", "-2147483647", "-2147483648",
    "-2147483649", "-9223372036854775807", "-9223372036854775808", "-9223372036854775809", "-18446744073709551617", "0000000000000000000001", "-0000000000000000000002", "00000129",
];

fn fmt_of(kind: &str) -> &'static Fmt {
    let name = if kind == "wcnf" && narrow() { "wcnf16" } else { kind };
    FORMATS.iter().find(|f| f.name == name).unwrap()
}
fn clause_items(items: &[String], has_header: bool) -> Vec<String> {
    items.iter().skip(if has_header { 1 } else { 0 }).cloned().collect()
}

pub fn suite(kind: &'static str, prop: &str, tier: &str, seed: u64) -> Report {
    let mut rep = Report::new();
    let f = fmt_of(kind);
    let all = prop == "all";
    start_watchdog(30);
    let docs = base_docs(kind);
    let scheds = [ONE_SHOT, Sched { chunk: 1, mode: Mode::Step(1), fail_at: None, interrupt: 0 }, Sched { chunk: 5, mode: Mode::Step(8), fail_at: None, interrupt: 0 }];
    let mut layouts: Vec<Layout> = vec![];
    // one feature at a time, then seeded combinations
    let c = canonical();
    layouts.push(c.clone());
    for sep in ["\t", "  ", " \t "] {
        layouts.push(Layout { sep, ..c.clone() });
    }
    for trail in [" ", "\t ", "   "] {
        layouts.push(Layout { trail, ..c.clone() });
    }
    layouts.push(Layout { eol: "\r\n", ..c.clone() });
    layouts.push(Layout { final_eol: false, ..c.clone() });
    layouts.push(Layout { zero: "-0", ..c.clone() });
    layouts.push(Layout { zero: "00", ..c.clone() });
    layouts.push(Layout { leading_zeros: 1, ..c.clone() });
    layouts.push(Layout { leading_zeros: 21, ..c.clone() });
    for filler in [vec![""], vec!["c comment"], vec!["c"], vec!["", "c x", ""], vec!["c x", "", "c y"], vec!["  "], vec!["\t"], vec!["c 1 2 0"], vec!["cnf"], vec!["c 10%\r 20%"], vec!["c\r"], vec!["c Jos\u{e9} N\u{fa}\u{f1}ez \u{2014} \u{1f600} solver"]] {
        layouts.push(Layout { filler: filler.clone(), ..c.clone() });
        layouts.push(Layout { filler, split: 1, ..c.clone() });
    }
    for split in [1, 2, 3] {
        layouts.push(Layout { split, ..c.clone() });
        layouts.push(Layout { split, indent: "  ", ..c.clone() });
        layouts.push(Layout { split, indent: "\t\t", eol: "\r\n", trail: " ", ..c.clone() });
    }
    let mut r = Rng::new(seed);
    let extra = if tier == "thorough" { 3000 } else { 300 };
    for _ in 0..extra {
        let fillers: [&[&'static str]; 6] = [&[], &[""], &["c x"], &["", "c y", ""], &["  "], &["c", "c"]];
        layouts.push(Layout {
            sep: [" ", "\t", "  ", " \t"][r.below(4)],
            trail: ["", " ", "\t"][r.below(3)],
            eol: ["\n", "\r\n"][r.below(2)],
            final_eol: r.below(3) != 0,
            zero: ["0", "-0", "000"][r.below(3)],
            leading_zeros: [0, 0, 1, 7, 20][r.below(5)],
            filler: fillers[r.below(6)].to_vec(),
            split: r.below(4),
            indent: ["", " ", "\t"][r.below(3)],
        });
    }
    if all || prop == "C07" {
        for (di, d) in docs.iter().enumerate() {
            let want = match expected(d) {
                Some(w) => w,
                None => continue,
            };
            for (li, l) in layouts.iter().enumerate() {
                let t = render(d, l, None);
                rep.inputs += 1;
                rep.nontrivial += 1;
                for &sc in scheds.iter() {
                    let o = run(f, &t.bytes, sc);
                    rep.runs += 1;
                    let got = clause_items(&o.items, d.header.is_some());
                    if o.end != End::Clean || got != want {
                        let mut a = vec![s("c07"), di.to_string(), li.to_string(), seed.to_string(), tier.to_string()];
                        a.extend(sc.args());
                        rep.fail("C07 every layout of the same tokens parses to the same value", show(&t.bytes), a, format!("layout {:?}: expected clauses {:?} and a clean end, got {:?} {:?}", l, want, got, o.end));
                    }
                }
            }
        }
    }
    if all || prop == "C06" {
        // every number position of every base document replaced by every number of the pool
        for (di, d) in docs.iter().enumerate() {
            let positions = render(d, &c, None).tokens.len();
            for pos in 0..positions {
                for (ni, num) in NUMBERS.iter().enumerate() {
                    let mut d2 = d.clone();
                    if *num == "0" && is_literal_position(d, pos) {
                        continue; // a 0 among the literals is the terminator, not a number of the clause
                    }
                    set_number(&mut d2, pos, num);
                    let want = expected(&d2);
                    // with ignore_header(true) the declared counts are not enforced: what only breaks a declared count is accepted
                    if want.is_none() && d2.header.is_some() {
                        let mut d3 = d2.clone();
                        let mut hdr_fits = true;
                        if let Some(h) = d3.header.as_mut() {
                            hdr_fits = h.iter().all(|x| big(x) >= 0 && big(x) <= usize::MAX as i128) && big(&h[0]) <= lit_max(kind) && (kind != "wcnf" || big(&h[2]) <= u64::MAX as i128);
                            for x in h.iter_mut() {
                                *x = "0".to_string();
                            }
                        }
                        if let (true, Some(w)) = (hdr_fits, expected(&d3)) {
                            let fi = FORMATS.iter().find(|f| f.name == format!("{}_ign", if kind == "wcnf" && narrow() { "wcnf16" } else { kind })).unwrap();
                            let t = render(&d2, &c, None);
                            let o = run(fi, &t.bytes, ONE_SHOT);
                            rep.runs += 1;
                            let got = clause_items(&o.items, true);
                            if o.end != End::Clean || got != w {
                                rep.fail("C06 the counts of a header the caller asked to ignore are not enforced", show(&t.bytes), vec![s("c06i"), di.to_string(), pos.to_string(), ni.to_string()], format!("with ignore_header(true): expected clauses {:?} and a clean end, got {:?} {:?}", w, got, o.end));
                            }
                        }
                    }
                    for (li, l) in [c.clone(), Layout { split: 2, indent: " ", ..c.clone() }].iter().enumerate() {
                        let t = render(&d2, l, None);
                        rep.inputs += 1;
                        rep.nontrivial += 1;
                        for &sc in scheds.iter() {
                            let o = run(f, &t.bytes, sc);
                            rep.runs += 1;
                            let got = clause_items(&o.items, d2.header.is_some());
                            let a = || {
                                let mut a = vec![s("c06"), di.to_string(), pos.to_string(), ni.to_string(), li.to_string()];
                                a.extend(sc.args());
                                a
                            };
                            match (&want, &o.end) {
                                (None, End::Clean) => rep.fail("C06 a document that breaks a declared limit or a number range is rejected", show(&t.bytes), a(), format!("accepted as {:?}", o.items)),
                                (Some(w), End::Clean) if *w != got => rep.fail("C06 accepted numbers are the numbers written", show(&t.bytes), a(), format!("expected {:?}, got {:?}", w, got)),
                                (Some(w), _) => {
                                    // whatever the end, the clauses handed out so far are the written ones
                                    if got.len() > w.len() || got[..] != w[..got.len()] {
                                        rep.fail("C06 accepted numbers are the numbers written", show(&t.bytes), a(), format!("expected a prefix of {:?}, got {:?}", w, got));
                                    }
                                }
                                _ => {}
                            }
                        }
                    }
                }
            }
        }
    }
    if all || prop == "C03" {
        // values of the domain (every number position x the number pool, those that respect the limits) written by the real writers and parsed back
        for (di, d) in docs.iter().enumerate() {
            let positions = render(d, &c, None).tokens.len();
            for pos in 0..=positions {
                for (ni, num) in NUMBERS.iter().enumerate() {
                    let mut d2 = d.clone();
                    if pos < positions {
                        if *num == "0" && is_literal_position(d, pos) {
                            continue;
                        }
                        set_number(&mut d2, pos, num);
                    } else if ni > 0 {
                        break; // pos == positions: the unmodified document, once
                    }
                    let want = match expected(&d2) {
                        Some(w) => w,
                        None => continue,
                    };
                    let bytes = match write_doc(&d2) {
                        Some(b) => b,
                        None => continue,
                    };
                    rep.inputs += 1;
                    rep.nontrivial += 1;
                    for &sc in scheds.iter() {
                        let o = run(f, &bytes, sc);
                        rep.runs += 1;
                        let got = clause_items(&o.items, d2.header.is_some());
                        if o.end != End::Clean || got != want {
                            let mut a = vec![s("c03"), di.to_string(), pos.to_string(), ni.to_string()];
                            a.extend(sc.args());
                            rep.fail("C03 parse(write(v)) == v for every value that respects its own header", show(&bytes), a, format!("written by the real writers as above; expected clauses {:?} and a clean end, got {:?} {:?}", want, got, o.end));
                        }
                    }
                }
            }
        }
    }
    if all || prop == "C08" {
        // one number token replaced by something that is no number: the error is reported on that token
        // (the last two: indentation directly behind the line break, resp. behind blank lines only - no comment line in between)
        let ls = [
            c.clone(),
            Layout { split: 2, indent: "  ", filler: vec!["", "c x"], ..c.clone() },
            Layout { eol: "\r\n", sep: "\t", filler: vec!["c"], split: 1, indent: "\t", ..c.clone() },
            Layout { split: 1, indent: "   ", ..c.clone() },
            Layout { split: 2, indent: "\t ", filler: vec![""], ..c.clone() },
        ];
        for (di, d) in docs.iter().enumerate() {
            if expected(d).is_none() {
                continue;
            }
            for (li, l) in ls.iter().enumerate() {
                let positions = render(d, l, None).tokens.len();
                for pos in 0..positions {
                    for (bi, bad) in ["x", "@@", "1x", "-x", "99999999999999999999", "-99999999999999999999", "4000000"].iter().enumerate() {
                        // a number that fits every integer type but exceeds the declared variable / group count: literals and gcnf groups of documents with such a count
                        if bi == 6 && !(is_literal_position(d, pos) && header_num(d, 0) > 0 || d.kind == "gcnf" && is_prefix_position(d, pos) && header_num(d, 2) > 0) {
                            continue;
                        }
                        // a number far outside every range is a corruption of a literal only (header counts and weights have other checks)
                        if bi == 5 && !is_literal_position(d, pos) {
                            continue;
                        }
                        let t = render(d, l, Some((pos, bad)));
                        let (line, c0, c1) = t.tokens[pos];
                        rep.inputs += 1;
                        rep.nontrivial += 1;
                        for &sc in scheds.iter() {
                            let o = run(f, &t.bytes, sc);
                            rep.runs += 1;
                            let ok = matches!(&o.end, End::Syntax { line: el, column: ec, .. } if *el == line && *ec >= c0 && *ec <= c1);
                            if !ok {
                                let mut a = vec![s("c08"), di.to_string(), li.to_string(), pos.to_string(), bi.to_string()];
                                a.extend(sc.args());
                                rep.fail("C08 a corrupted token is reported at its own line and column", show(&t.bytes), a, format!("token at line {} columns {}..{} corrupted to {:?}: got {:?}", line, c0, c1, bad, o.end));
                            }
                        }
                    }
                }
            }
        }
    }
    rep.bound = format!(
        "{}: {} structured documents (with and without header); C07: {} layouts (each feature alone: separators, trailing blanks, CRLF, no final newline, -0/00 terminator, leading zeros, blank and comment lines before the header, between clauses and inside split clauses, indentation; plus {} seeded combinations); C06: every number position x {} numbers around the i16/i32/i64/u64/usize boundaries; C08: every number token corrupted in 5 ways (literals 7, gcnf groups 6: also beyond the declared count) x 5 layouts; 3 read schedules each",
        kind,
        docs.len(),
        layouts.len(),
        extra,
        NUMBERS.len()
    );
    rep
}

// ---------------------------------------------------------------- solver logs (C07)
/// renders a log: status line, value lines broken after every `split` literals, `filler` lines at every line boundary chosen by `mask`
fn render_log(status: &str, lits: &[i32], split: usize, filler: &[&str], mask: u32, eol: &str, final_eol: bool, sep: &str) -> Vec<u8> {
    let mut lines: Vec<String> = vec![];
    lines.push(format!("s{}{}", sep, status));
    if status == "SATISFIABLE" {
        let mut toks: Vec<String> = lits.iter().map(|l| l.to_string()).collect();
        toks.push("0".into());
        let n = if split == 0 { toks.len() } else { split };
        for ch in toks.chunks(n) {
            lines.push(format!("v{}{}", sep, ch.join(sep)));
        }
    }
    let mut out = String::new();
    for (i, l) in lines.iter().enumerate() {
        if mask >> i & 1 == 1 {
            for f in filler {
                out += f;
                out += eol;
            }
        }
        out += l;
        if i + 1 < lines.len() || final_eol {
            out += eol;
        }
    }
    if final_eol && mask >> lines.len() & 1 == 1 {
        for f in filler {
            out += f;
            out += eol;
        }
    }
    out.into_bytes()
}
pub fn satlog_suite(prop: &str, tier: &str, seed: u64) -> Report {
    let mut rep = Report::new();
    if prop == "all" || prop == "C06" {
        // every literal position of a value line replaced by every number of the pool: accepted exactly when it is a non-zero literal of
        // the literal type (i32 here), and then returned exactly
        let f = FORMATS.iter().find(|f| f.name == "satlog").unwrap();
        start_watchdog(30);
        let base = ["1", "-2", "3"];
        for pos in 0..base.len() {
            for (ni, num) in NUMBERS.iter().enumerate() {
                let mut lits: Vec<String> = base.iter().map(|x| x.to_string()).collect();
                lits[pos] = num.to_string();
                let t = format!("s SATISFIABLE\nv {} 0\n", lits.join(" ")).into_bytes();
                let v = big(num);
                let ok = v != 0 && v.abs() <= i32::MAX as i128;
                rep.inputs += 1;
                rep.nontrivial += 1;
                for sc in [ONE_SHOT, Sched { chunk: 1, mode: Mode::Step(1), fail_at: None, interrupt: 0 }] {
                    let o = run(f, &t, sc);
                    rep.runs += 1;
                    let mut a = vec![s("log06"), pos.to_string(), ni.to_string()];
                    a.extend(sc.args());
                    if o.end == End::Clean {
                        let want = format!("Some(true) [{}]", lits.iter().map(|x| big(x).to_string()).collect::<Vec<_>>().join(", "));
                        if !ok {
                            if num != &"0" {
                                rep.fail("C06 a literal outside the literal type is rejected (solver log)", show(&t), a, format!("accepted as {:?}", o.items));
                            }
                        } else if o.items != vec![want.clone()] {
                            rep.fail("C06 accepted numbers are the numbers written (solver log)", show(&t), a, format!("expected {}, got {:?}", want, o.items));
                        }
                    } else if let End::Panic(m) = &o.end {
                        rep.fail("C06 a literal outside the literal type is rejected (solver log)", show(&t), a, format!("panic: {}", m));
                    }
                }
            }
        }
    }
    if !(prop == "all" || prop == "C07") {
        return rep;
    }
    start_watchdog(30);
    let strict = FORMATS.iter().find(|f| f.name == "satlog").unwrap();
    let ign = FORMATS.iter().find(|f| f.name == "satlog_ign").unwrap();
    let scheds = [ONE_SHOT, Sched { chunk: 1, mode: Mode::Step(1), fail_at: None, interrupt: 0 }, Sched { chunk: 16384, mode: Mode::Lines, fail_at: None, interrupt: 0 }];
    let cases: [(&str, Vec<i32>); 5] = [("SATISFIABLE", vec![1, -2, 3, -4, 5]), ("SATISFIABLE", vec![]), ("SATISFIABLE", vec![-2147483647, 2147483647]), ("UNSATISFIABLE", vec![]), ("UNKNOWN", vec![])];
    // a comment line of a solver log is `c` followed by a blank (a bare `c` is an unknown line: the crate's own test treats it so)
    let comment_fillers: [&[&str]; 4] = [&["c "], &["c comment"], &["c s UNSATISFIABLE", "c v 9 0"], &["c ", "c  ", "c x"]];
    // (the last three: an indented status / value line is an unknown line, also directly behind a comment line)
    let unknown_fillers: [&[&str]; 10] = [&[""], &["o 5"], &["", ""], &["random text"], &["c x", "", "o 1"], &["   "], &["c"], &["c x", "  v 9 8 0"], &["c", " s UNSATISFIABLE"], &["cpu time 3s", "\tv 7 0"]];
    let mut r = Rng::new(seed);
    let rounds = if tier == "thorough" { 4000 } else { 400 };
    let mut one = |rep: &mut Report, f: &Fmt, status: &str, lits: &[i32], split: usize, filler: &[&str], mask: u32, eol: &str, final_eol: bool, sep: &str| {
        let t = render_log(status, lits, split, filler, mask, eol, final_eol, sep);
        let want = format!(
            "{:?} {:?}",
            match status {
                "SATISFIABLE" => Some(true),
                "UNSATISFIABLE" => Some(false),
                _ => None,
            },
            lits
        );
        rep.inputs += 1;
        rep.nontrivial += 1;
        for &sc in scheds.iter() {
            let o = run(f, &t, sc);
            rep.runs += 1;
            if o.end != End::Clean || o.items != vec![want.clone()] {
                let mut a = vec![s("log"), hex(&t), f.name.to_string()];
                a.extend(sc.args());
                rep.fail("C07 a solver log yields the same status and assignment for every placement of comment and ignored lines", show(&t), a, format!("expected {} and a clean end, got {:?} {:?}", want, o.items, o.end));
            }
        }
    };
    for (status, lits) in cases.iter() {
        // systematically: every split, every single insertion point, each filler
        for split in 0..=3usize {
            for pos in 0..8u32 {
                for f in comment_fillers.iter() {
                    one(&mut rep, strict, status, lits, split, f, 1 << pos, "\n", true, " ");
                    one(&mut rep, ign, status, lits, split, f, 1 << pos, "\n", true, " ");
                }
                for f in unknown_fillers.iter() {
                    one(&mut rep, ign, status, lits, split, f, 1 << pos, "\n", true, " ");
                }
            }
            one(&mut rep, strict, status, lits, split, &[], 0, "\r\n", true, " ");
            one(&mut rep, strict, status, lits, split, &[], 0, "\n", false, " ");
        }
        for _ in 0..rounds / 5 {
            let split = r.below(5);
            let mask = r.next() as u32 & 0xff;
            let eol = ["\n", "\r\n"][r.below(2)];
            let fin = r.below(4) != 0;
            let sep = " "; // the property promises nothing about the blanks inside status and value lines
            one(&mut rep, strict, status, lits, split, comment_fillers[r.below(4)], mask, eol, fin, sep);
            one(&mut rep, ign, status, lits, split, unknown_fillers[r.below(10)], mask, eol, fin, sep);
        }
    }
    rep.bound = format!("satlog: 5 logs (three statuses, empty and extreme assignments) x value lines broken after 1/2/3/all literals x comment lines (strict and ignoring mode) and unknown / blank lines (ignoring mode) at every single line boundary, CRLF, no final newline, plus {} seeded combinations; 3 read schedules", rounds);
    rep
}

fn header_num(d: &Doc, k: usize) -> i128 {
    d.header.as_ref().and_then(|h| h.get(k)).and_then(|x| x.parse::<i128>().ok()).unwrap_or(0)
}
fn is_prefix_position(d: &Doc, pos: usize) -> bool {
    let mut k = d.header.as_ref().map(|h| h.len()).unwrap_or(0);
    for c in &d.clauses {
        if c.prefix.is_some() {
            if k == pos {
                return true;
            }
            k += 1;
        }
        k += c.lits.len();
    }
    false
}
fn is_literal_position(d: &Doc, pos: usize) -> bool {
    let mut k = d.header.as_ref().map(|h| h.len()).unwrap_or(0);
    for c in &d.clauses {
        if c.prefix.is_some() {
            if k == pos {
                return false;
            }
            k += 1;
        }
        for _ in &c.lits {
            if k == pos {
                return true;
            }
            k += 1;
        }
    }
    false
}
/// the document as the real writers render it (None when a number does not fit the value types of the writers)
fn write_doc(d: &Doc) -> Option<Vec<u8>> {
    use crate::fmt::to_bytes;
    let h: Option<Vec<usize>> = match &d.header {
        Some(h) => Some(h.iter().map(|x| x.parse::<usize>().ok()).collect::<Option<Vec<_>>>()?),
        None => None,
    };
    match d.kind {
        "cnf" => {
            let cs: Vec<Vec<i32>> = d.clauses.iter().map(|c| c.lits.iter().map(|l| l.parse::<i32>().ok()).collect::<Option<Vec<_>>>()).collect::<Option<Vec<_>>>()?;
            Some(to_bytes(|w| {
                if let Some(h) = &h {
                    flussab_cnf::cnf::write_header(w, flussab_cnf::cnf::Header { var_count: h[0], clause_count: h[1] });
                }
                for c in &cs {
                    flussab_cnf::cnf::write_clause(w, c);
                }
            }))
        }
        "wcnf" => {
            let top = match &d.header {
                Some(hh) => Some(hh[2].parse::<u64>().ok()?),
                None => None,
            };
            let cs: Vec<(u64, Vec<isize>)> = d.clauses.iter().map(|c| Some((c.prefix.as_ref()?.parse::<u64>().ok()?, c.lits.iter().map(|l| l.parse::<isize>().ok()).collect::<Option<Vec<_>>>()?))).collect::<Option<Vec<_>>>()?;
            Some(to_bytes(|w| {
                if let Some(h) = &h {
                    flussab_cnf::wcnf::write_header(w, flussab_cnf::wcnf::Header { var_count: h[0], clause_count: h[1], top_weight: top.unwrap() });
                }
                for c in &cs {
                    flussab_cnf::wcnf::write_clause(w, c.0, &c.1);
                }
            }))
        }
        _ => {
            let cs: Vec<(usize, Vec<i16>)> = d.clauses.iter().map(|c| Some((c.prefix.as_ref()?.parse::<usize>().ok()?, c.lits.iter().map(|l| l.parse::<i16>().ok()).collect::<Option<Vec<_>>>()?))).collect::<Option<Vec<_>>>()?;
            Some(to_bytes(|w| {
                if let Some(h) = &h {
                    flussab_cnf::gcnf::write_header(w, flussab_cnf::gcnf::Header { var_count: h[0], clause_count: h[1], group_count: h[2] });
                }
                for c in &cs {
                    flussab_cnf::gcnf::write_clause(w, c.0, &c.1);
                }
            }))
        }
    }
}
fn set_number(d: &mut Doc, pos: usize, num: &str) {
    let mut k = 0;
    if let Some(h) = d.header.as_mut() {
        for x in h.iter_mut() {
            if k == pos {
                *x = num.to_string();
            }
            k += 1;
        }
    }
    for c in d.clauses.iter_mut() {
        if let Some(p) = c.prefix.as_mut() {
            if k == pos {
                *p = num.to_string();
            }
            k += 1;
        }
        for x in c.lits.iter_mut() {
            if k == pos {
                *x = num.to_string();
            }
            k += 1;
        }
    }
}
pub fn replay_log(args: &[String]) -> i32 {
    let t = unhex(&args[1]);
    let f = FORMATS.iter().find(|f| f.name == args[2]).unwrap();
    let sc = Sched::from_args(&args[3..]);
    let o = run(f, &t, sc);
    println!("log {:?} under {:?}: {:?} {:?}", show(&t), sc, o.items, o.end);
    println!("FAILS if this differs from the status and assignment written in the log (see the recorded detail)");
    1
}
pub fn replay(kind: &'static str, prop: &str, args: &[String]) -> i32 {
    if args[0] == "log" {
        return replay_log(args);
    }
    // the recorded arguments identify the generated case; the simplest faithful replay re-runs the sub-suite and looks for the same case
    let tier = if args[0] == "c07" { args[4].clone() } else { "quick".to_string() };
    let seed: u64 = if args[0] == "c07" { args[3].parse().unwrap() } else { 1 };
    let rep = suite(kind, prop, &tier, seed);
    let mut code = 0;
    for f in &rep.failures {
        if f.replay == args {
            println!("FAILS {}: input {:?}: {}", f.check, f.input, f.detail);
            code = 1;
        }
    }
    if code == 0 && !rep.failures.is_empty() {
        for f in rep.failures.iter().take(3) {
            println!("FAILS (other case) {}: input {:?}: {}", f.check, f.input, f.detail);
        }
        code = 1;
    }
    code
}
