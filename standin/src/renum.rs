//! AIG renumbering on every small circuit (C12): structure of the result, Boolean equivalence of every root and of the
//! literal map by exhaustive simulation, the structure errors, and termination (watchdog + memory cap) on cyclic graphs.
use std::collections::HashMap;
use std::panic::{catch_unwind, AssertUnwindSafe};
use std::sync::atomic::Ordering;

use flussab_aiger::aig::{Aig, AigStructureError, AndGate, Latch, OrderedAig, Renumber, RenumberConfig};

use crate::common::*;

#[derive(Clone, Debug)]
pub struct Case {
    pub inputs: usize,
    pub latches: usize,
    /// gate k defines literal 2 * (inputs + latches + k + 1)
    pub gates: Vec<[u32; 2]>,
    pub reversed: bool,
    pub latch_next: Vec<u32>,
    pub outputs: Vec<u32>,
    /// extra definition of an already defined literal (index into the definers), to provoke LitAlreadyDefined
    pub duplicate: Option<u32>,
    /// the extra definition is a latch (appended to the latches) instead of an and-gate
    pub dup_latch: bool,
    pub cfg: u8,
}
impl Case {
    fn aig(&self) -> Aig<u32> {
        let i = self.inputs as u32;
        let l = self.latches as u32;
        let mut gates: Vec<AndGate<u32>> = self.gates.iter().enumerate().map(|(k, g)| AndGate { inputs: *g, output: 2 * (i + l + k as u32 + 1) }).collect();
        if self.reversed {
            gates.reverse();
        }
        let mut latches: Vec<Latch<u32>> = (0..l).map(|k| Latch { state: 2 * (i + k + 1), next_state: self.latch_next[k as usize], initialization: None }).collect();
        if let Some(d) = self.duplicate {
            if self.dup_latch {
                latches.push(Latch { state: d, next_state: 0, initialization: None });
            } else {
                gates.push(AndGate { inputs: [0, 0], output: d });
            }
        }
        let m = self.inputs + self.latches + self.gates.len();
        Aig {
            max_var_index: m,
            inputs: (0..i).map(|k| 2 * (k + 1)).collect(),
            latches,
            outputs: self.outputs.clone(),
            bad_state_properties: self.outputs.iter().rev().take(1).map(|&x| x ^ 1).collect(),
            invariant_constraints: self.outputs.iter().take(1).cloned().collect(),
            justice_properties: vec![self.outputs.iter().take(2).cloned().collect(), vec![]],
            fairness_constraints: self.outputs.iter().skip(1).take(1).cloned().collect(),
            and_gates: gates,
            symbols: vec![],
            comment: None,
        }
    }
    fn config(&self) -> RenumberConfig {
        RenumberConfig::default().trim(self.cfg & 1 != 0).structural_hash(self.cfg & 2 != 0).const_fold(self.cfg & 4 != 0)
    }
    fn args(&self) -> Vec<String> {
        vec![
            self.inputs.to_string(),
            self.latches.to_string(),
            self.gates.iter().map(|g| format!("{}:{}", g[0], g[1])).collect::<Vec<_>>().join(","),
            (self.reversed as u8).to_string(),
            self.latch_next.iter().map(|x| x.to_string()).collect::<Vec<_>>().join(","),
            self.outputs.iter().map(|x| x.to_string()).collect::<Vec<_>>().join(","),
            self.duplicate.map(|x| x.to_string()).unwrap_or("-".into()),
            self.cfg.to_string(),
            (self.dup_latch as u8).to_string(),
        ]
    }
    fn from_args(a: &[String]) -> Case {
        let list = |s: &String| -> Vec<u32> { s.split(',').filter(|x| !x.is_empty()).map(|x| x.parse().unwrap()).collect() };
        Case {
            inputs: a[0].parse().unwrap(),
            latches: a[1].parse().unwrap(),
            gates: a[2]
                .split(',')
                .filter(|x| !x.is_empty())
                .map(|g| {
                    let mut it = g.split(':');
                    [it.next().unwrap().parse().unwrap(), it.next().unwrap().parse().unwrap()]
                })
                .collect(),
            reversed: a[3] == "1",
            latch_next: list(&a[4]),
            outputs: list(&a[5]),
            duplicate: a[6].parse().ok(),
            cfg: a[7].parse().unwrap(),
            dup_latch: a.get(8).map(|x| x == "1").unwrap_or(false),
        }
    }
}

/// the original circuit's structure problems reachable from the roots: (undefined literal, cycle)
fn analyse(c: &Case, all_gates_are_roots: bool) -> (bool, bool) {
    let base = (c.inputs + c.latches) as u32;
    let g = c.gates.len() as u32;
    let mut roots: Vec<u32> = vec![];
    if all_gates_are_roots {
        for k in 0..g {
            roots.push(2 * (base + k + 1));
        }
    }
    roots.extend(c.latch_next.iter().cloned());
    roots.extend(c.outputs.iter().cloned());
    let mut undefined = false;
    let mut cycle = false;
    // 0 = unvisited, 1 = on the path, 2 = done
    let mut state: HashMap<u32, u8> = HashMap::new();
    fn visit(v: u32, c: &Case, base: u32, g: u32, state: &mut HashMap<u32, u8>, undefined: &mut bool, cycle: &mut bool) {
        if v <= base {
            return;
        }
        if v > base + g {
            *undefined = true;
            return;
        }
        match state.get(&v).copied().unwrap_or(0) {
            1 => {
                *cycle = true;
                return;
            }
            2 => return,
            _ => {}
        }
        state.insert(v, 1);
        let gate = c.gates[(v - base - 1) as usize];
        for x in gate {
            visit(x >> 1, c, base, g, state, undefined, cycle);
        }
        state.insert(v, 2);
    }
    for r in roots {
        visit(r >> 1, c, base, g, &mut state, &mut undefined, &mut cycle);
    }
    (undefined, cycle)
}
fn eval_old(c: &Case, lit: u32, env: u32, memo: &mut HashMap<u32, bool>) -> bool {
    let v = lit >> 1;
    let base = (c.inputs + c.latches) as u32;
    let val = if v == 0 {
        false
    } else if v <= base {
        (env >> (v - 1)) & 1 == 1
    } else if let Some(&b) = memo.get(&v) {
        b
    } else {
        let g = c.gates[(v - base - 1) as usize];
        let b = eval_old(c, g[0], env, memo) && eval_old(c, g[1], env, memo);
        memo.insert(v, b);
        b
    };
    val ^ (lit & 1 == 1)
}
fn eval_new(o: &OrderedAig<u32>, lit: u32, env: u32, memo: &mut Vec<Option<bool>>) -> Option<bool> {
    let v = (lit >> 1) as usize;
    let base = o.input_count + o.latches.len();
    let val = if v == 0 {
        false
    } else if v <= base {
        (env >> (v - 1)) & 1 == 1
    } else {
        let k = v - base - 1;
        if k >= o.and_gates.len() {
            return None;
        }
        if let Some(b) = memo[k] {
            b
        } else {
            let g = o.and_gates[k].inputs;
            // inputs are numbered below the gate (checked before), so this terminates
            let b = eval_new(o, g[0], env, memo)? && eval_new(o, g[1], env, memo)?;
            memo[k] = Some(b);
            b
        }
    };
    Some(val ^ (lit & 1 == 1))
}

pub fn check(c: &Case) -> Option<(String, String)> {
    let aig = c.aig();
    set_case("C12 renumbering terminates", &format!("{:?} options trim={} structural_hash={} const_fold={}", aig, c.cfg & 1 != 0, c.cfg & 2 != 0, c.cfg & 4 != 0), &c.args());
    macro_rules! bad {
        ($c:expr, $($a:tt)*) => { return Some(($c.to_string(), format!($($a)*))) };
    }
    let r = catch_unwind(AssertUnwindSafe(|| Renumber::renumber_aig(c.config(), &aig)));
    let r = match r {
        Ok(r) => r,
        // under the check of C05 the suite decides termination and absence of panics only (the other checks carry the C12 prefix)
        Err(p) => bad!(if PROP_NO.load(Ordering::Relaxed) == 5 { "C05 renumbering returns a circuit or a structure error instead of panicking" } else { "C12 renumbering returns a circuit or a structure error" }, "panic: {}", panic_msg(p)),
    };
    let trim = c.cfg & 1 != 0;
    let const_fold = c.cfg & 4 != 0;
    let (undefined, cycle) = analyse(c, !trim);
    let (undefined_any, cycle_any) = analyse(c, true);
    match r {
        Err(e) => {
            let kind = match e {
                AigStructureError::LitAlreadyDefined { .. } => "already defined",
                AigStructureError::LitNotDefined { .. } => "not defined",
                AigStructureError::FoundCycle { .. } => "cycle",
            };
            if c.duplicate.is_none() && !undefined_any && !cycle_any {
                bad!("C12 a well-formed graph is renumbered", "error `{}` for a well-formed graph", kind);
            }
            if c.duplicate.is_some() && kind != "already defined" {
                bad!("C12 a doubly defined literal yields LitAlreadyDefined", "error `{}`", kind);
            }
            if c.duplicate.is_none() && kind == "already defined" {
                bad!("C12 the reported structure error is the one present", "error `{}` but no literal is defined twice", kind);
            }
            if kind == "cycle" && !cycle_any {
                bad!("C12 the reported structure error is the one present", "error `{}` but the graph is acyclic", kind);
            }
            if kind == "not defined" && !undefined_any {
                bad!("C12 the reported structure error is the one present", "error `{}` but every used literal is defined", kind);
            }
            None
        }
        Ok((o, ren)) => {
            if c.duplicate.is_some() {
                bad!("C12 a doubly defined literal yields LitAlreadyDefined", "accepted: {:?}", o);
            }
            if (cycle || undefined) && !const_fold {
                bad!("C12 a cycle or an undefined literal among the transferred gates yields the corresponding error", "cycle reachable: {}, undefined literal reachable: {}, accepted as {:?}", cycle, undefined, o);
            }
            if cycle_any || undefined_any {
                return None; // nothing to compare with: the original has no function
            }
            // ---- structure
            let base = o.input_count + o.latches.len();
            if o.input_count != c.inputs || o.latches.len() != c.latches {
                bad!("C12 inputs, then latches, then gates are numbered consecutively", "{} inputs and {} latches became {} and {}", c.inputs, c.latches, o.input_count, o.latches.len());
            }
            if o.max_var_index != base + o.and_gates.len() {
                bad!("C12 inputs, then latches, then gates are numbered consecutively", "max_var_index {} with {} inputs, {} latches, {} gates", o.max_var_index, o.input_count, o.latches.len(), o.and_gates.len());
            }
            for (k, g) in o.and_gates.iter().enumerate() {
                let out = 2 * (base + k + 1) as u32;
                if g.inputs[0] < g.inputs[1] {
                    bad!("C12 every gate has its larger input first", "gate {} (literal {}) has inputs {:?} in {:?}", k, out, g.inputs, o);
                }
                if g.inputs[0] >= out {
                    bad!("C12 every gate's inputs are numbered below the gate", "gate {} (literal {}) has inputs {:?} in {:?}", k, out, g.inputs, o);
                }
            }
            if !trim && !const_fold && c.cfg & 2 == 0 && o.and_gates.len() != c.gates.len() {
                bad!("C12 without trim, hashing and folding every gate is kept", "{} gates became {}", c.gates.len(), o.and_gates.len());
            }
            // ---- function of every root and of the literal map, for every assignment of inputs and latch states
            let a = c.aig();
            let roots_old: Vec<u32> = a.latches.iter().map(|l| l.next_state).chain(a.outputs.iter().cloned()).chain(a.bad_state_properties.iter().cloned()).chain(a.invariant_constraints.iter().cloned()).chain(a.justice_properties.iter().flatten().cloned()).chain(a.fairness_constraints.iter().cloned()).collect();
            let roots_new: Vec<u32> = o.latches.iter().map(|l| l.next_state).chain(o.outputs.iter().cloned()).chain(o.bad_state_properties.iter().cloned()).chain(o.invariant_constraints.iter().cloned()).chain(o.justice_properties.iter().flatten().cloned()).chain(o.fairness_constraints.iter().cloned()).collect();
            if roots_old.len() != roots_new.len() || o.justice_properties.iter().map(|j| j.len()).collect::<Vec<_>>() != a.justice_properties.iter().map(|j| j.len()).collect::<Vec<_>>() {
                bad!("C12 every root literal is carried over", "{} roots became {}", roots_old.len(), roots_new.len());
            }
            for env in 0..(1u32 << base) {
                let mut mo = HashMap::new();
                let mut mn = vec![None; o.and_gates.len()];
                for (k, (&ro, &rn)) in roots_old.iter().zip(roots_new.iter()).enumerate() {
                    let vo = eval_old(c, ro, env, &mut mo);
                    match eval_new(&o, rn, env, &mut mn) {
                        Some(vn) if vn == vo => {}
                        other => bad!("C12 every root computes the same function as in the original", "root {} (literal {} -> {}) under assignment {:#b}: original {}, renumbered {:?}; result {:?}", k, ro, rn, env, vo, other, o),
                    }
                }
                for lit in 0..=(2 * (c.inputs + c.latches + c.gates.len()) + 1) as u32 {
                    if let Some(n) = ren.lit_map().get(lit) {
                        let vo = eval_old(c, lit, env, &mut mo);
                        match eval_new(&o, n, env, &mut mn) {
                            Some(vn) if vn == vo => {}
                            other => bad!("C12 the literal map sends each literal to one computing the same function", "literal {} -> {} under assignment {:#b}: original {}, renumbered {:?}; result {:?}", lit, n, env, vo, other, o),
                        }
                    }
                }
            }
            for &r in &roots_old {
                if ren.lit_map().get(r).is_none() {
                    bad!("C12 the literal map covers every root", "root literal {} is not mapped", r);
                }
            }
            None
        }
    }
}

pub fn suite(_prop: &str, tier: &str, seed: u64) -> Report {
    let mut rep = Report::new();
    ALLOC_CAP.store(512 << 20, Ordering::Relaxed);
    start_watchdog(20);
    let mut run = |rep: &mut Report, c: &Case| {
        rep.runs += 1;
        if let Some((check, detail)) = check(c) {
            rep.fail(&check, format!("{:?}", c.aig()), c.args(), detail);
        }
    };
    let mut rng = Rng::new(seed);
    for inputs in 0..=2usize {
        for latches in 0..=1usize {
            for g in 0..=3usize {
                let base = (inputs + latches) as u32;
                let m = base + g as u32;
                let nl = 2 * m + 2; // literals 0..=2m+1
                let combos: u64 = (nl as u64).pow(2 * g as u32);
                let exhaustive = g <= 2 || tier == "thorough" && combos <= 3_000_000;
                let count = if exhaustive { combos } else { if tier == "thorough" { 200_000 } else { 20_000 } };
                for n in 0..count {
                    let mut x = if exhaustive { n } else { rng.next() % combos };
                    let mut gates = vec![];
                    for _ in 0..g {
                        let a = (x % nl as u64) as u32;
                        x /= nl as u64;
                        let b = (x % nl as u64) as u32;
                        x /= nl as u64;
                        gates.push([a, b]);
                    }
                    let top = 2 * m; // literal of the last defined variable
                    let outputs: Vec<u32> = if g > 0 { vec![top, 2 * (base + 1) + 1, 1] } else { vec![top | 1, 0, 1] };
                    let latch_next: Vec<u32> = (0..latches).map(|_| if g > 0 { top ^ 1 } else { 2 * base }).collect();
                    let variant = (n % 8) as u8;
                    rep.inputs += 1;
                    rep.nontrivial += 1;
                    for cfg in 0..8u8 {
                        // the gate list order only matters for forward references: alternate it
                        run(&mut rep, &Case { inputs, latches, gates: gates.clone(), reversed: (variant ^ cfg) & 1 == 1, latch_next: latch_next.clone(), outputs: outputs.clone(), duplicate: None, dup_latch: false, cfg });
                    }
                }
            }
        }
    }
    // undefined literals and double definitions
    for cfg in 0..8u8 {
        for (gates, outs) in [(vec![[2u32, 9]], vec![4u32]), (vec![[8, 2]], vec![5]), (vec![[2, 3], [9, 4]], vec![6]), (vec![[2, 3], [9, 4]], vec![4]), (vec![], vec![4]), (vec![], vec![7])] {
            run(&mut rep, &Case { inputs: 1, latches: 0, gates, reversed: false, latch_next: vec![], outputs: outs, duplicate: None, dup_latch: false, cfg });
        }
        for d in [2u32, 3, 4, 5, 6, 0, 1] {
            run(&mut rep, &Case { inputs: 1, latches: 1, gates: vec![[2, 4]], reversed: false, latch_next: vec![6], outputs: vec![6], duplicate: Some(d), dup_latch: false, cfg });
            // the same literals defined once more by a further latch (after the input 2, the latch 4 and the gate 6)
            run(&mut rep, &Case { inputs: 1, latches: 1, gates: vec![[2, 4]], reversed: false, latch_next: vec![6], outputs: vec![6], duplicate: Some(d), dup_latch: true, cfg });
        }
    }
    // deep chains: the traversal is iterative, depth must not matter
    for cfg in 0..8u8 {
        let depth = 200_000usize;
        let gates: Vec<[u32; 2]> = (0..depth).map(|k| if k == 0 { [2, 3] } else { [2 * (k as u32 + 1), 2] }).collect();
        let top = 2 * (depth as u32 + 1);
        let c = Case { inputs: 1, latches: 0, gates, reversed: true, latch_next: vec![], outputs: vec![top], duplicate: None, dup_latch: false, cfg };
        set_case("C12 renumbering terminates for arbitrarily deep graphs", &format!("chain of {} gates, options {}", depth, cfg), &["deep".to_string(), depth.to_string(), cfg.to_string()]);
        let aig = c.aig();
        rep.runs += 1;
        match catch_unwind(AssertUnwindSafe(|| Renumber::renumber_aig(c.config(), &aig))) {
            Ok(Ok((o, _))) => {
                if cfg & 4 == 0 && o.and_gates.len() != depth {
                    rep.fail("C12 renumbering terminates for arbitrarily deep graphs", format!("chain of {} gates", depth), vec!["deep".into(), depth.to_string(), cfg.to_string()], format!("{} gates in the result", o.and_gates.len()));
                }
            }
            Ok(Err(e)) => rep.fail("C12 renumbering terminates for arbitrarily deep graphs", format!("chain of {} gates", depth), vec!["deep".into(), depth.to_string(), cfg.to_string()], format!("error {:?}", e)),
            Err(p) => rep.fail("C12 renumbering terminates for arbitrarily deep graphs", format!("chain of {} gates", depth), vec!["deep".into(), depth.to_string(), cfg.to_string()], format!("panic {}", panic_msg(p))),
        }
    }
    rep.bound = "renumber: every circuit with 0..2 inputs, 0..1 latches and 0..2 and-gates whose gate inputs range over ALL literals 0..2M+1 (so cyclic, self-referential and forward-referencing ones are included), 3 gates sampled (thorough: more), gate list in both orders, all 8 combinations of trim / structural_hash / const_fold; undefined literals (as gate inputs and as roots only) and literals defined twice (by a further and-gate or a further latch, over an input, a latch, a gate, their negations and the constants); a chain of 200000 gates; roots and literal map compared by simulation under every assignment; 20 s watchdog and 512 MiB cap for termination".to_string();
    rep
}
pub fn replay(_prop: &str, args: &[String]) -> i32 {
    ALLOC_CAP.store(512 << 20, Ordering::Relaxed);
    start_watchdog(20);
    if args[0] == "deep" {
        println!("re-run the suite for the deep chain");
        return 1;
    }
    let c = Case::from_args(args);
    println!("circuit {:?}", c.aig());
    match check(&c) {
        Some((ch, d)) => {
            println!("FAILS {}: {}", ch, d);
            1
        }
        None => 0,
    }
}
